//! Builders for every input backend, all denoting the same logical sequence.
use std::sync::Arc;

use tevec::export::ndarray::{Array1, ArrayView1, ArrayViewMut1, s};

/// owned ndarray
pub fn nd_owned<T: Clone>(x: &[T]) -> Array1<T> {
    Array1::from_vec(x.to_vec())
}

/// A base array and a step such that `nd_view(&base, step)` denotes exactly `x`.
/// The base holds `junk` between the selected elements.
pub fn nd_base<T: Clone>(x: &[T], step: isize, junk: T) -> Array1<T> {
    let k = step.unsigned_abs();
    assert!(k >= 1);
    if x.is_empty() {
        return Array1::from_vec(vec![]);
    }
    let blen = (x.len() - 1) * k + 1;
    let mut b = vec![junk; blen];
    for (i, v) in x.iter().enumerate() {
        let pos = if step > 0 { i * k } else { blen - 1 - i * k };
        b[pos] = v.clone();
    }
    Array1::from_vec(b)
}

pub fn nd_view<T>(base: &Array1<T>, step: isize) -> ArrayView1<'_, T> {
    base.slice(s![..;step])
}

pub fn nd_view_mut<T>(base: &mut Array1<T>, step: isize) -> ArrayViewMut1<'_, T> {
    base.slice_mut(s![..;step])
}

pub fn arc_vec<T: Clone>(x: &[T]) -> Arc<Vec<T>> {
    Arc::new(x.to_vec())
}

pub fn arc_nd<T: Clone>(x: &[T]) -> Arc<Array1<T>> {
    Arc::new(nd_owned(x))
}

#[cfg(feature = "polars")]
pub mod pl {
    use tevec::export::polars::prelude::*;

    /// Float64 chunked array with `nchunks` chunks (cut points spread over the length)
    pub fn f64_chunked(x: &[Option<f64>], nchunks: usize) -> Float64Chunked {
        let n = x.len();
        let k = nchunks.max(1).min(n.max(1));
        let mut ca: Option<Float64Chunked> = None;
        for c in 0..k {
            let a = c * n / k;
            let b = (c + 1) * n / k;
            let part = Float64Chunked::from_slice_options("".into(), &x[a..b]);
            match ca.as_mut() {
                None => ca = Some(part),
                Some(acc) => acc.append(&part).expect("append"),
            }
        }
        ca.unwrap_or_else(|| Float64Chunked::from_slice_options("".into(), &[]))
    }

    pub fn i32_chunked(x: &[Option<i32>], nchunks: usize) -> Int32Chunked {
        let n = x.len();
        let k = nchunks.max(1).min(n.max(1));
        let mut ca: Option<Int32Chunked> = None;
        for c in 0..k {
            let a = c * n / k;
            let b = (c + 1) * n / k;
            let part = Int32Chunked::from_slice_options("".into(), &x[a..b]);
            match ca.as_mut() {
                None => ca = Some(part),
                Some(acc) => acc.append(&part).expect("append"),
            }
        }
        ca.unwrap_or_else(|| Int32Chunked::from_slice_options("".into(), &[]))
    }

    pub fn n_chunks<T: PolarsDataType>(ca: &ChunkedArray<T>) -> usize {
        ca.chunks().len()
    }
}
