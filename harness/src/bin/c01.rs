//! C01 — rolling moments / weighted averages / fractional difference equal the from-scratch
//! evaluation of the window (DESIGN §4.C01).
use std::collections::VecDeque;

use tevec::prelude::{Cast, IsNone, Number, TIter, Vec1, Vec1View};
use tvmon::ctx::{Ctx, catch};
use tvmon::monitor::{CallInfo, JudgeOpts, judge};
use tvmon::rng::Rng;
use tvmon::rollreg::*;
use tvmon::wl::*;

#[allow(clippy::too_many_arguments)]
fn run_valid<V, T, O, U>(ctx: &mut Ctx, rf: Rf, v: &V, x: &Series, w: usize, mp: Option<usize>, path: Path, label: &str, class: &str, f32acc: bool)
where
    V: Vec1View<T>,
    T: IsNone,
    T::Inner: Number,
    O: Vec1<U>,
    U: OutElem,
    f64: Cast<U>,
    Option<T::Inner>: Cast<U>,
{
    let cx = ExCtx::for_series(x, None, w, f32acc);
    let exp = expect_roll(rf, x, None, w, mp, cx);
    let res = catch(|| {
        let o: O = call_valid1::<V, T, O, U>(rf, v, w, mp, path);
        o.titer().collect::<Vec<U>>()
    });
    let ci = CallInfo { rf, label, w, mp, path, x, y: None, class };
    judge(ctx, &ci, res, &exp, JudgeOpts::default());
}

#[allow(clippy::too_many_arguments)]
fn run_plain<V, T, O, U>(ctx: &mut Ctx, rf: Rf, v: &V, x: &Series, w: usize, mp: Option<usize>, path: Path, label: &str, class: &str, f32acc: bool)
where
    V: Vec1View<T>,
    T: Number,
    O: Vec1<U>,
    U: OutElem,
    f64: Cast<U>,
{
    let cx = ExCtx::for_series(x, None, w, f32acc);
    let exp = expect_roll(rf, x, None, w, mp, cx);
    let res = catch(|| {
        let o: O = call_plain1::<V, T, O, U>(rf, v, w, mp, path);
        o.titer().collect::<Vec<U>>()
    });
    let ci = CallInfo { rf, label, w, mp, path, x, y: None, class };
    judge(ctx, &ci, res, &exp, JudgeOpts::default());
}

#[cfg(feature = "fdiff")]
#[allow(clippy::too_many_arguments)]
fn run_fdiff<V, T, O, U>(ctx: &mut Ctx, rf: Rf, v: &V, x: &Series, w: usize, mp: Option<usize>, path: Path, label: &str, class: &str)
where
    V: Vec1View<T>,
    T: IsNone + Cast<f64>,
    T::Inner: Number,
    for<'a> V::SliceOutput<'a>: TIter<T>,
    O: Vec1<U>,
    U: OutElem,
    f64: Cast<U>,
{
    let cx = ExCtx::for_series(x, None, w, false);
    let exp = expect_roll(rf, x, None, w, mp, cx);
    let res = catch(|| {
        let o: O = call_fdiff::<V, T, O, U>(rf, v, w, mp, path);
        o.titer().collect::<Vec<U>>()
    });
    let ci = CallInfo { rf, label, w, mp, path, x, y: None, class };
    judge(ctx, &ci, res, &exp, JudgeOpts::default());
}

/// all type / backend combinations for one (series, w, mp)
fn run_all_combos(ctx: &mut Ctx, rng: &mut Rng, x: &Series, w: usize, mp: Option<usize>, class: &str, fns: &[Rf], full: bool) {
    let nulls = has_nulls(x);
    let int_valued = x.iter().all(|v| v.map(|f| f.fract() == 0.0 && f.abs() < 1e9).unwrap_or(true));
    let xf64 = enc_f64(x);
    let xf32 = enc_f32(x);
    let xopt = enc_opt_f64(x);
    let rot = rng.below(x.len().max(1));
    for &rf in fns {
        let path = if rng.chance(0.5) { Path::Ret } else { Path::Buf };
        if rf.is_plain() {
            if nulls {
                continue;
            }
            run_plain::<Vec<f64>, f64, Vec<f64>, f64>(ctx, rf, &xf64, x, w, mp, path, "vec<f64>->vec<f64>", class, false);
            if full {
                run_plain::<Vec<f32>, f32, Vec<f64>, f64>(ctx, rf, &xf32, &f32_series(x), w, mp, path, "vec<f32>->vec<f64>", class, rf == Rf::Sum);
                run_plain::<Vec<f64>, f64, Vec<f32>, f32>(ctx, rf, &xf64, x, w, mp, path, "vec<f64>->vec<f32>", class, false);
                run_plain::<Vec<f64>, f64, Vec<Option<f64>>, Option<f64>>(ctx, rf, &xf64, x, w, mp, path, "vec<f64>->vec<opt f64>", class, false);
                let dq = deque_of(&xf64, rot);
                run_plain::<VecDeque<f64>, f64, VecDeque<f64>, f64>(ctx, rf, &dq, x, w, mp, path, "deque<f64>->deque<f64>", class, false);
                if int_valued {
                    let xi32 = enc_i32(x);
                    let xi64 = enc_i64(x);
                    run_plain::<Vec<i32>, i32, Vec<f64>, f64>(ctx, rf, &xi32, x, w, mp, path, "vec<i32>->vec<f64>", class, false);
                    run_plain::<Vec<i64>, i64, Vec<f64>, f64>(ctx, rf, &xi64, x, w, mp, path, "vec<i64>->vec<f64>", class, false);
                    run_plain::<Vec<i32>, i32, Vec<i32>, i32>(ctx, rf, &xi32, x, w, mp, path, "vec<i32>->vec<i32>", class, false);
                }
            }
        } else {
            run_valid::<Vec<f64>, f64, Vec<f64>, f64>(ctx, rf, &xf64, x, w, mp, path, "vec<f64>->vec<f64>", class, false);
            if full {
                run_valid::<Vec<Option<f64>>, Option<f64>, Vec<Option<f64>>, Option<f64>>(ctx, rf, &xopt, x, w, mp, path, "vec<opt f64>->vec<opt f64>", class, false);
                run_valid::<Vec<f32>, f32, Vec<f64>, f64>(ctx, rf, &xf32, &f32_series(x), w, mp, path, "vec<f32>->vec<f64>", class, rf == Rf::VSum);
                run_valid::<Vec<f64>, f64, Vec<f32>, f32>(ctx, rf, &xf64, x, w, mp, path, "vec<f64>->vec<f32>", class, false);
                let dq = deque_of(&xf64, rot);
                run_valid::<VecDeque<f64>, f64, VecDeque<f64>, f64>(ctx, rf, &dq, x, w, mp, path, "deque<f64>->deque<f64>", class, false);
                {
                    let oi = xf64.opt();
                    run_valid::<_, Option<f64>, Vec<Option<f64>>, Option<f64>>(ctx, rf, &oi, x, w, mp, path, "optiter(vec<f64>)->vec<opt f64>", class, false);
                }
                if int_valued {
                    let xoi = enc_opt_i32(x);
                    run_valid::<Vec<Option<i32>>, Option<i32>, Vec<f64>, f64>(ctx, rf, &xoi, x, w, mp, path, "vec<opt i32>->vec<f64>", class, false);
                    run_valid::<Vec<f64>, f64, Vec<i32>, i32>(ctx, rf, &xf64, x, w, mp, path, "vec<f64>->vec<i32>", class, false);
                    if !nulls {
                        let xi32 = enc_i32(x);
                        let xi64 = enc_i64(x);
                        run_valid::<Vec<i32>, i32, Vec<f64>, f64>(ctx, rf, &xi32, x, w, mp, path, "vec<i32>->vec<f64>", class, false);
                        run_valid::<Vec<i64>, i64, Vec<Option<f64>>, Option<f64>>(ctx, rf, &xi64, x, w, mp, path, "vec<i64>->vec<opt f64>", class, false);
                    }
                }
            }
        }
    }
}

/// the logical series as seen through f32 elements
fn f32_series(x: &Series) -> Series {
    x.iter().map(|v| v.map(|f| f as f32 as f64)).collect()
}

#[cfg(feature = "fdiff")]
fn run_fdiff_combos(ctx: &mut Ctx, rng: &mut Rng, x: &Series, w: usize, mp: Option<usize>, class: &str) {
    let ds = [0.3, 0.5, 1.0, 1.5, 0.05, 1.95];
    let d = if rng.chance(0.5) { *rng.pick(&ds) } else { rng.uniform(0.01, 1.99) };
    let xf64 = enc_f64(x);
    let path = if rng.chance(0.5) { Path::Ret } else { Path::Buf };
    run_fdiff::<Vec<f64>, f64, Vec<f64>, f64>(ctx, Rf::VFdiff(d), &xf64, x, w, mp, path, "vec<f64>->vec<f64>", class);
    let xopt = enc_opt_f64(x);
    run_fdiff::<Vec<Option<f64>>, Option<f64>, Vec<Option<f64>>, Option<f64>>(ctx, Rf::VFdiff(d), &xopt, x, w, mp, path, "vec<opt f64>->vec<opt f64>", class);
    if !has_nulls(x) {
        run_fdiff::<Vec<f64>, f64, Vec<f64>, f64>(ctx, Rf::Fdiff(d), &xf64, x, w, mp, path, "vec<f64>->vec<f64>", class);
        let xf32 = enc_f32(x);
        run_fdiff::<Vec<f32>, f32, Vec<f32>, f32>(ctx, Rf::Fdiff(d), &xf32, &f32_series(x), w, mp, path, "vec<f32>->vec<f32>", class);
        if x.iter().all(|v| v.unwrap().fract() == 0.0) {
            let xi = enc_i32(x);
            run_fdiff::<Vec<i32>, i32, Vec<f64>, f64>(ctx, Rf::Fdiff(d), &xi, x, w, mp, path, "vec<i32>->vec<f64>", class);
            run_fdiff::<Vec<i32>, i32, Vec<f64>, f64>(ctx, Rf::VFdiff(d), &xi, x, w, mp, path, "vec<i32>->vec<f64>", class);
        }
    }
}
#[cfg(not(feature = "fdiff"))]
fn run_fdiff_combos(_: &mut Ctx, _: &mut Rng, _: &Series, _: usize, _: Option<usize>, _: &str) {}

fn main() {
    let mut ctx = Ctx::from_args("C01");
    let mut fns: Vec<Rf> = PLAIN_FNS.to_vec();
    fns.extend_from_slice(&VMOMENT_FNS);

    // ---- structured sweep: small lengths, all windows, all min_periods --------------------
    let nmax = ctx.budget(9, 14);
    for len in 0..=nmax {
        for w in 1..=len + 2 {
            let mut mps: Vec<Option<usize>> = vec![None];
            mps.extend((0..=w).map(Some));
            for mp in mps {
                for pat in NULL_PATTERNS {
                    if let Some(mut rng) = ctx.sweep_case() {
                        let class = *rng.pick(&EXACT_CLASSES);
                        let x = series(&mut rng, class, pat, len);
                        let cl = format!("{class:?}/{pat:?}");
                        run_all_combos(&mut ctx, &mut rng, &x, w, mp, &cl, &fns, true);
                        run_fdiff_combos(&mut ctx, &mut rng, &x, w, mp, &cl);
                    }
                }
            }
        }
    }

    // ---- random: medium lengths, every value class ------------------------------------------
    let nrand = ctx.cbudget(300, 6000);
    for _ in 0..nrand {
        if let Some(mut rng) = ctx.random_case() {
            let len = rng.range_usize(1, 80);
            let w = rng.range_usize(1, len + 2);
            let mp = if rng.chance(0.25) { None } else { Some(rng.range_usize(0, w)) };
            let (x, c, p) = random_series(&mut rng, &ALL_CLASSES, len);
            let cl = format!("{c:?}/{p:?}");
            run_all_combos(&mut ctx, &mut rng, &x, w, mp, &cl, &fns, true);
            run_fdiff_combos(&mut ctx, &mut rng, &x, w, mp, &cl);
        }
    }

    // ---- stress: long histories (drift) -----------------------------------------------------
    let nlong = ctx.cbudget(6, 60);
    for k in 0..nlong {
        if let Some(mut rng) = ctx.random_case() {
            let len = if ctx.thorough() { rng.range_usize(20_000, 100_000) } else { rng.range_usize(4_000, 12_000) };
            let w = *rng.pick(&[2usize, 3, 5, 10, 20, 50, 100, 250, 500]);
            let mp = Some(rng.range_usize(1, w));
            // two thirds exact class (sharp), one third float class (bounded drift)
            let class = if k % 3 == 2 { *rng.pick(&FLOAT_CLASSES) } else { *rng.pick(&EXACT_CLASSES) };
            let pat = *rng.pick(&[NullPat::NoNulls, NullPat::NoNulls, NullPat::Random10, NullPat::Blocks, NullPat::Random50]);
            let x = series(&mut rng, class, pat, len);
            let cl = format!("long/{class:?}/{pat:?}");
            ctx.count("long_histories");
            ctx.count_n("long_history_positions", len as u64);
            run_all_combos(&mut ctx, &mut rng, &x, w, mp, &cl, &fns, false);
            if k % 4 == 0 {
                run_fdiff_combos(&mut ctx, &mut rng, &x[..len.min(3000)].to_vec(), w.min(60), mp.map(|m| m.min(w.min(60))), &cl);
            }
        }
    }
    std::process::exit(ctx.finish());
}
