//! C02 — rolling drivers call back once per position with exactly the right window.
//! Online trace checker fed by a recording callback; elements are unique ids so that an
//! argument identifies the position it came from.
use std::cell::RefCell;
use std::collections::VecDeque;
use std::sync::Arc;

use tevec::export::ndarray::{Array1, ArrayView1};
use tevec::prelude::{TIter, UninitVec, Vec1, Vec1View};
use tvmon::backends::*;
use tvmon::ctx::{Ctx, catch, is_marked_panic, panic_key};
use tvmon::spy::{SpyOut, SpyVec, SpyVecFast};
use tvmon::wl::{deque_is_wrapped, deque_of};

const XB: i64 = 1000;
const YB: i64 = 2000;

trait Ident: Clone {
    fn id(&self) -> i64;
}
impl Ident for f64 {
    fn id(&self) -> i64 {
        *self as i64
    }
}
impl Ident for Option<f64> {
    fn id(&self) -> i64 {
        self.map(|v| v as i64).unwrap_or(-1)
    }
}

trait SeqVal: Clone + 'static {
    fn from_seq(s: u64) -> Self;
    fn seq(&self) -> Option<u64>;
}
impl SeqVal for f64 {
    fn from_seq(s: u64) -> Self {
        s as f64
    }
    fn seq(&self) -> Option<u64> {
        if self.is_finite() && *self >= 0.0 { Some(*self as u64) } else { None }
    }
}
impl SeqVal for Option<f64> {
    fn from_seq(s: u64) -> Self {
        Some(s as f64)
    }
    fn seq(&self) -> Option<u64> {
        self.and_then(|v| v.seq())
    }
}

/// ids carried by a window-slice argument, whatever its concrete type
trait SliceIds {
    fn ids(self) -> Vec<i64>;
}
impl<T: Ident> SliceIds for &[T] {
    fn ids(self) -> Vec<i64> {
        self.iter().map(|v| v.id()).collect()
    }
}
impl<T: Ident> SliceIds for std::collections::vec_deque::Iter<'_, T> {
    fn ids(self) -> Vec<i64> {
        self.map(|v| v.id()).collect()
    }
}
impl<T: Ident> SliceIds for ArrayView1<'_, T> {
    fn ids(self) -> Vec<i64> {
        self.iter().map(|v| v.id()).collect()
    }
}
impl<T: Ident> SliceIds for Vec<T> {
    fn ids(self) -> Vec<i64> {
        self.iter().map(|v| v.id()).collect()
    }
}
#[cfg(feature = "polars")]
impl SliceIds for tevec::export::polars::prelude::Float64Chunked {
    fn ids(self) -> Vec<i64> {
        self.titer().map(|v| v.id()).collect()
    }
}

#[derive(Clone, Debug, PartialEq)]
enum Ev {
    Apply { removed: Option<i64>, added: i64 },
    Apply2 { removed: Option<(i64, i64)>, added: (i64, i64) },
    Idx { start: Option<usize>, end: usize, value: i64 },
    Idx2 { start: Option<usize>, end: usize, value: (i64, i64) },
    Slice { ids: Vec<i64> },
    Slice2 { a: Vec<i64>, b: Vec<i64> },
}

#[derive(Clone, Copy, Debug, PartialEq, Eq, Hash)]
enum OutPath {
    /// out = None: result returned
    Ret,
    /// out = Some(buffer) through the public entry point
    Buf,
    /// the public `*_to` method
    To,
}

#[derive(Clone, Copy, Debug, PartialEq, Eq)]
enum CbKind {
    Recording,
    /// result depends on the whole call history (order sensitive checksum)
    Stateful,
    /// panics at call number k (fault injection)
    PanicAt(usize),
}

struct Rec {
    log: RefCell<Vec<Ev>>,
    state: RefCell<u64>,
    kind: CbKind,
}

impl Rec {
    fn new(kind: CbKind) -> Self {
        Rec { log: RefCell::new(Vec::new()), state: RefCell::new(0x9E37), kind }
    }
    fn emit<OT: SeqVal>(&self, ev: Ev, key: i64) -> OT {
        let seq = self.log.borrow().len();
        self.log.borrow_mut().push(ev);
        match self.kind {
            CbKind::Recording => OT::from_seq(seq as u64),
            CbKind::Stateful => {
                let mut s = self.state.borrow_mut();
                *s = (s.wrapping_mul(31).wrapping_add(key as u64)) % 1_000_003;
                OT::from_seq(*s)
            },
            CbKind::PanicAt(k) => {
                if seq == k {
                    panic!("injected callback panic at call {k}");
                }
                OT::from_seq(seq as u64)
            },
        }
    }
}

/// the value a stateful callback must have produced at call i when invoked once per position in order
fn stateful_expected(keys: &[i64]) -> Vec<u64> {
    let mut s: u64 = 0x9E37;
    keys.iter()
        .map(|k| {
            s = (s.wrapping_mul(31).wrapping_add(*k as u64)) % 1_000_003;
            s
        })
        .collect()
}

struct Spec<'a> {
    driver: &'static str,
    label: &'a str,
    len: usize,
    w: usize,
    path: OutPath,
    kind: CbKind,
}

impl Spec<'_> {
    fn desc(&self) -> String {
        format!("{} [{}] len={} w={} path={:?} callback={:?}", self.driver, self.label, self.len, self.w, self.path, self.kind)
    }
}

/// The trace automaton: consumes the event log in order.
fn check_trace<OT: SeqVal>(ctx: &mut Ctx, sp: &Spec, log: &[Ev], out: Option<&[OT]>) {
    let (len, w) = (sp.len, sp.w);
    let d = sp.driver;
    let mut keys = Vec::with_capacity(log.len());
    for (i, ev) in log.iter().enumerate() {
        ctx.events += 1;
        if i >= len {
            ctx.violation(&format!("{d}/extra_call"), || format!("call {i} beyond the last position; {}", sp.desc()));
            return;
        }
        // removal rule
        let warm = i + 1 < w.min(len); // i < min(w,len) - 1
        let must_some = w <= len && i + 1 >= w;
        let rm_idx = (i + 1).wrapping_sub(w); // i - w + 1 when it exists
        let bad = |what: String| format!("position {i}: {what}; event {ev:?}; {}", sp.desc());
        let mut fail: Option<(&str, String)> = None;
        match ev {
            Ev::Apply { removed, added } => {
                keys.push(*added);
                if *added != XB + i as i64 {
                    fail = Some(("wrong_position", bad(format!("expected the element of position {i}"))));
                } else if warm && removed.is_some() {
                    fail = Some(("removed_in_warmup", bad("nothing may be removed before the window is full".into())));
                } else if must_some && *removed != Some(XB + rm_idx as i64) {
                    fail = Some(("wrong_removed", bad(format!("expected removed element of position {rm_idx}"))));
                } else if !warm && !must_some {
                    ctx.count("unspecified_removal_positions");
                }
            },
            Ev::Apply2 { removed, added } => {
                keys.push(added.0 * 7 + added.1);
                if *added != (XB + i as i64, YB + i as i64) {
                    fail = Some(("wrong_position", bad(format!("expected the elements of position {i}"))));
                } else if warm && removed.is_some() {
                    fail = Some(("removed_in_warmup", bad("nothing may be removed before the window is full".into())));
                } else if must_some && *removed != Some((XB + rm_idx as i64, YB + rm_idx as i64)) {
                    fail = Some(("wrong_removed", bad(format!("expected removed elements of position {rm_idx}"))));
                } else if !warm && !must_some {
                    ctx.count("unspecified_removal_positions");
                }
            },
            Ev::Idx { start, end, value } => {
                keys.push(*value);
                if *end != i || *value != XB + i as i64 {
                    fail = Some(("wrong_position", bad(format!("expected end index and element of position {i}"))));
                } else if warm && start.is_some() {
                    fail = Some(("removed_in_warmup", bad("no start index before the window is full".into())));
                } else if must_some && *start != Some(rm_idx) {
                    fail = Some(("wrong_removed", bad(format!("expected start index {rm_idx}"))));
                } else if !warm && !must_some {
                    ctx.count("unspecified_removal_positions");
                }
            },
            Ev::Idx2 { start, end, value } => {
                keys.push(value.0 * 7 + value.1);
                if *end != i || *value != (XB + i as i64, YB + i as i64) {
                    fail = Some(("wrong_position", bad(format!("expected end index and elements of position {i}"))));
                } else if warm && start.is_some() {
                    fail = Some(("removed_in_warmup", bad("no start index before the window is full".into())));
                } else if must_some && *start != Some(rm_idx) {
                    fail = Some(("wrong_removed", bad(format!("expected start index {rm_idx}"))));
                } else if !warm && !must_some {
                    ctx.count("unspecified_removal_positions");
                }
            },
            Ev::Slice { ids } => {
                keys.push(*ids.last().unwrap_or(&-7));
                let s = (i + 1).saturating_sub(w);
                let want: Vec<i64> = (s..=i).map(|j| XB + j as i64).collect();
                if *ids != want {
                    fail = Some(("wrong_slice", bad(format!("expected the sub-sequence {s}..={i}"))));
                }
            },
            Ev::Slice2 { a, b } => {
                keys.push(*a.last().unwrap_or(&-7) * 7 + *b.last().unwrap_or(&-7));
                let s = (i + 1).saturating_sub(w);
                let wa: Vec<i64> = (s..=i).map(|j| XB + j as i64).collect();
                let wb: Vec<i64> = (s..=i).map(|j| YB + j as i64).collect();
                if *a != wa || *b != wb {
                    fail = Some(("wrong_slice", bad(format!("expected the sub-sequences {s}..={i} of both series"))));
                }
            },
        }
        if let Some((k, msg)) = fail {
            ctx.violation(&format!("{d}/{k}"), || msg);
            return;
        }
    }
    if let CbKind::PanicAt(k) = sp.kind {
        // the panic must have surfaced at call k (k < len), nothing after it
        if k < len && log.len() != k + 1 {
            ctx.violation(&format!("{d}/calls_after_panic"), || format!("{} calls logged, expected {}; {}", log.len(), k + 1, sp.desc()));
        }
        return;
    }
    if log.len() != len {
        ctx.violation(&format!("{d}/missing_calls"), || format!("{} calls for {} positions; {}", log.len(), len, sp.desc()));
        return;
    }
    let Some(out) = out else { return };
    if out.len() != len {
        ctx.violation(&format!("{d}/output_length"), || format!("output length {} != {}; {}", out.len(), len, sp.desc()));
        return;
    }
    let expect: Vec<u64> = match sp.kind {
        CbKind::Stateful => stateful_expected(&keys),
        _ => (0..len as u64).collect(),
    };
    for i in 0..len {
        if out[i].seq() != Some(expect[i]) {
            ctx.violation(&format!("{d}/output_placement"), || {
                format!("output[{i}] holds {:?}, expected the result {} of the call for position {i}; {}", out[i].seq(), expect[i], sp.desc())
            });
            return;
        }
    }
    if len > 0 {
        ctx.distinct(&format!("{}|{}|{}|{}|{:?}|{:?}", sp.driver, sp.label, len, w, sp.path, sp.kind));
        ctx.count(&format!("ok.{d}"));
        ctx.count(&format!("okpath.{:?}", sp.path));
        ctx.sample(|| format!("{} -> {} callback events accepted by the trace automaton, e.g. last event {:?}", sp.desc(), log.len(), log.last()));
    }
}

fn handle<OT: SeqVal>(ctx: &mut Ctx, sp: &Spec, rec: &Rec, res: Result<Vec<OT>, String>) {
    ctx.evaluations += 1;
    ctx.count(&format!("calls.{}", sp.driver));
    let log = rec.log.borrow().clone();
    match res {
        Ok(out) => {
            if let CbKind::PanicAt(k) = sp.kind {
                if k < sp.len {
                    ctx.violation(&format!("{}/swallowed_panic", sp.driver), || format!("injected panic did not propagate; {}", sp.desc()));
                    return;
                }
            }
            check_trace(ctx, sp, &log, Some(&out));
        },
        Err(p) => {
            if p.contains("injected callback panic") {
                ctx.count("injected_panics_propagated");
                check_trace::<OT>(ctx, sp, &log, None);
            } else if is_marked_panic(&p) {
                ctx.violation(&format!("{}/memory/{}", sp.driver, panic_key(&p)), || format!("{p}; {}", sp.desc()));
            } else {
                ctx.violation(&format!("{}/panic/{}", sp.driver, panic_key(&p)), || format!("{p}; {}", sp.desc()));
            }
        },
    }
}

thread_local! {
    /// rotation of the ring buffer for caller-supplied VecDeque buffers (0 = as `uninit(len)` makes it)
    static BUF_ROT: std::cell::Cell<usize> = const { std::cell::Cell::new(0) };
}

/// the caller-supplied uninitialised buffer: `uninit(len)` for every container, and for VecDeque also a
/// ring buffer whose head sits anywhere (physically wrapped around), pre-filled with the poison pattern
/// so that an unwritten slot is recognisable
trait MkUninit<OT>: Vec1<OT> {
    fn mk_uninit(len: usize) -> Self::Uninit {
        <Self as Vec1<OT>>::uninit(len)
    }
}
impl MkUninit<f64> for Vec<f64> {}
impl MkUninit<f64> for SpyOut<f64> {}
impl MkUninit<f64> for Array1<f64> {}
#[cfg(feature = "polars")]
impl MkUninit<Option<f64>> for tevec::export::polars::prelude::Float64Chunked {}
impl MkUninit<f64> for VecDeque<f64> {
    fn mk_uninit(len: usize) -> VecDeque<std::mem::MaybeUninit<f64>> {
        let rot = BUF_ROT.with(|r| r.get());
        if rot == 0 || len == 0 {
            return <Self as Vec1<f64>>::uninit(len);
        }
        let poison = std::mem::MaybeUninit::new(f64::from_bits(0xA5A5_A5A5_A5A5_A5A5));
        deque_of(&vec![poison; len], rot)
    }
}

/// finish a caller-buffer call: the library wrote into `buf`
macro_rules! with_buf {
    ($O:ty, $OT:ty, $len:expr, |$b:ident| $call:expr) => {{
        let mut ub = <$O as MkUninit<$OT>>::mk_uninit($len);
        {
            let $b = <$O as Vec1<$OT>>::uninit_ref_mut(&mut ub);
            $call;
        }
        let o: $O = unsafe { ub.assume_init() };
        o.titer().collect::<Vec<$OT>>()
    }};
}

#[allow(clippy::too_many_arguments)]
fn drive_all<V, T, O, OT>(ctx: &mut Ctx, v: &V, v2: &V, len: usize, w: usize, label: &str, kind: CbKind, allow_to: bool)
where
    V: Vec1View<T> + 'static,
    T: Ident,
    O: Vec1<OT> + MkUninit<OT>,
    OT: SeqVal,
    for<'a> V::SliceOutput<'a>: SliceIds,
{
    drive_apply::<V, T, O, OT>(ctx, v, v2, len, w, label, kind, allow_to);
    drive_slices::<V, T, O, OT>(ctx, v, v2, len, w, label, kind, allow_to);
}

/// remove/add and window-index drivers (single and two-series)
#[allow(clippy::too_many_arguments)]
fn drive_apply<V, T, O, OT>(ctx: &mut Ctx, v: &V, v2: &V, len: usize, w: usize, label: &str, kind: CbKind, allow_to: bool)
where
    V: Vec1View<T>,
    T: Ident,
    O: Vec1<OT> + MkUninit<OT>,
    OT: SeqVal,
{
    let paths: &[OutPath] = if allow_to { &[OutPath::Ret, OutPath::Buf, OutPath::To] } else { &[OutPath::Ret] };
    for &path in paths {
        // rolling_apply
        {
            let rec = Rec::new(kind);
            let sp = Spec { driver: "rolling_apply", label, len, w, path, kind };
            let f = |rm: Option<T>, a: T| rec.emit::<OT>(Ev::Apply { removed: rm.map(|r| r.id()), added: a.id() }, a.id());
            let res = catch(|| match path {
                OutPath::Ret => v.rolling_apply::<O, OT, _>(w, f, None).unwrap().titer().collect::<Vec<OT>>(),
                OutPath::Buf => with_buf!(O, OT, len, |b| assert!(v.rolling_apply::<O, OT, _>(w, f, Some(b)).is_none())),
                OutPath::To => with_buf!(O, OT, len, |b| v.rolling_apply_to::<O, OT, _>(w, f, b)),
            });
            handle(ctx, &sp, &rec, res);
        }
        // rolling_apply_idx
        {
            let rec = Rec::new(kind);
            let sp = Spec { driver: "rolling_apply_idx", label, len, w, path, kind };
            let f = |s: Option<usize>, e: usize, a: T| rec.emit::<OT>(Ev::Idx { start: s, end: e, value: a.id() }, a.id());
            let res = catch(|| match path {
                OutPath::Ret => v.rolling_apply_idx::<O, OT, _>(w, f, None).unwrap().titer().collect::<Vec<OT>>(),
                OutPath::Buf => with_buf!(O, OT, len, |b| assert!(v.rolling_apply_idx::<O, OT, _>(w, f, Some(b)).is_none())),
                OutPath::To => with_buf!(O, OT, len, |b| v.rolling_apply_idx_to::<O, OT, _>(w, f, b)),
            });
            handle(ctx, &sp, &rec, res);
        }
        // rolling2_apply
        {
            let rec = Rec::new(kind);
            let sp = Spec { driver: "rolling2_apply", label, len, w, path, kind };
            let f = |rm: Option<(T, T)>, a: (T, T)| {
                rec.emit::<OT>(Ev::Apply2 { removed: rm.map(|r| (r.0.id(), r.1.id())), added: (a.0.id(), a.1.id()) }, a.0.id() * 7 + a.1.id())
            };
            let res = catch(|| match path {
                OutPath::Ret => v.rolling2_apply::<O, OT, V, T, _>(v2, w, f, None).unwrap().titer().collect::<Vec<OT>>(),
                OutPath::Buf => with_buf!(O, OT, len, |b| assert!(v.rolling2_apply::<O, OT, V, T, _>(v2, w, f, Some(b)).is_none())),
                OutPath::To => with_buf!(O, OT, len, |b| v.rolling2_apply_to::<O, OT, V, T, _>(v2, w, f, b)),
            });
            handle(ctx, &sp, &rec, res);
        }
        // rolling2_apply_idx
        {
            let rec = Rec::new(kind);
            let sp = Spec { driver: "rolling2_apply_idx", label, len, w, path, kind };
            let f = |s: Option<usize>, e: usize, a: (T, T)| {
                rec.emit::<OT>(Ev::Idx2 { start: s, end: e, value: (a.0.id(), a.1.id()) }, a.0.id() * 7 + a.1.id())
            };
            let res = catch(|| match path {
                OutPath::Ret => v.rolling2_apply_idx::<O, OT, V, T, _>(v2, w, f, None).unwrap().titer().collect::<Vec<OT>>(),
                OutPath::Buf => with_buf!(O, OT, len, |b| assert!(v.rolling2_apply_idx::<O, OT, V, T, _>(v2, w, f, Some(b)).is_none())),
                OutPath::To => with_buf!(O, OT, len, |b| v.rolling2_apply_idx_to::<O, OT, V, T, _>(v2, w, f, b)),
            });
            handle(ctx, &sp, &rec, res);
        }
    }
}

/// window-slice drivers incl. the lazy iterator
#[allow(clippy::too_many_arguments)]
fn drive_slices<V, T, O, OT>(ctx: &mut Ctx, v: &V, v2: &V, len: usize, w: usize, label: &str, kind: CbKind, allow_to: bool)
where
    V: Vec1View<T>,
    T: Ident,
    O: Vec1<OT> + MkUninit<OT>,
    OT: SeqVal,
    for<'a> V::SliceOutput<'a>: SliceIds,
{
    let paths: &[OutPath] = if allow_to { &[OutPath::Ret, OutPath::Buf, OutPath::To] } else { &[OutPath::Ret] };
    for &path in paths {
        // rolling_custom
        {
            let rec = Rec::new(kind);
            let sp = Spec { driver: "rolling_custom", label, len, w, path, kind };
            let f = |s: V::SliceOutput<'_>| {
                let ids = s.ids();
                let k = *ids.last().unwrap_or(&-7);
                rec.emit::<OT>(Ev::Slice { ids }, k)
            };
            let res = catch(|| match path {
                OutPath::Ret => v.rolling_custom::<O, OT, _>(w, f, None).unwrap().titer().collect::<Vec<OT>>(),
                OutPath::Buf => with_buf!(O, OT, len, |b| assert!(v.rolling_custom::<O, OT, _>(w, f, Some(b)).is_none())),
                OutPath::To => with_buf!(O, OT, len, |b| v.rolling_custom_to::<O, OT, _>(w, f, b)),
            });
            handle(ctx, &sp, &rec, res);
        }
        // rolling2_custom (no `_to` form)
        if path != OutPath::To {
            let rec = Rec::new(kind);
            let sp = Spec { driver: "rolling2_custom", label, len, w, path, kind };
            let f = |s: V::SliceOutput<'_>, t: V::SliceOutput<'_>| {
                let (a, b) = (s.ids(), t.ids());
                let k = *a.last().unwrap_or(&-7) * 7 + *b.last().unwrap_or(&-7);
                rec.emit::<OT>(Ev::Slice2 { a, b }, k)
            };
            let res = catch(|| match path {
                OutPath::Ret => v.rolling2_custom::<O, OT, V, T, _>(v2, w, f, None).unwrap().titer().collect::<Vec<OT>>(),
                _ => with_buf!(O, OT, len, |b| assert!(v.rolling2_custom::<O, OT, V, T, _>(v2, w, f, Some(b)).is_none())),
            });
            handle(ctx, &sp, &rec, res);
        }
        // rolling_custom_iter (lazy): consumed by plain safe iteration
        if path == OutPath::Ret {
            let rec = Rec::new(kind);
            let sp = Spec { driver: "rolling_custom_iter", label, len, w, path, kind };
            let f = |s: V::SliceOutput<'_>| {
                let ids = s.ids();
                let k = *ids.last().unwrap_or(&-7);
                rec.emit::<OT>(Ev::Slice { ids }, k)
            };
            let res = catch(|| {
                let it = v.rolling_custom_iter(w, f);
                let hint = it.size_hint();
                let out: Vec<OT> = it.collect();
                assert!(hint == (len, Some(len)), "size hint {hint:?} for a series of {len}");
                out
            });
            handle(ctx, &sp, &rec, res);
        }
    }
}

fn ids(base: i64, len: usize) -> Vec<f64> {
    (0..len).map(|i| (base + i as i64) as f64).collect()
}

fn run_case(ctx: &mut Ctx, rng: &mut tvmon::rng::Rng, len: usize, w: usize, kind: CbKind, full: bool) {
    let x = ids(XB, len);
    // the second series may legally be longer than the first (the drivers assert other.len() >= len);
    // positions, window arguments and the output length are those of the first series
    let extra = [0usize, 0, 1, 2][rng.below(4)];
    if extra > 0 {
        ctx.count("second_series_longer");
    }
    let y = ids(YB, len + extra);
    // Vec fast path into every output container
    drive_all::<Vec<f64>, f64, Vec<f64>, f64>(ctx, &x, &y, len, w, "vec->vec", kind, true);
    drive_all::<Vec<f64>, f64, SpyOut<f64>, f64>(ctx, &x, &y, len, w, "vec->spyout", kind, true);
    let osx = tvmon::spy::take_out_stats();
    ctx.count_n("spyout.usets", osx.usets);
    ctx.count_n("spyout.buffers_verified", osx.buffers_verified);
    if !full {
        return;
    }
    drive_all::<Vec<f64>, f64, VecDeque<f64>, f64>(ctx, &x, &y, len, w, "vec->deque", kind, true);
    if len > 0 {
        // the same with a caller-supplied ring buffer whose head is rotated (usually physically wrapped)
        BUF_ROT.with(|r| r.set(1 + rng.below(len)));
        ctx.count("wrapped_deque_buffers");
        drive_all::<Vec<f64>, f64, VecDeque<f64>, f64>(ctx, &x, &y, len, w, "vec->deque(rotated buffer)", kind, true);
        BUF_ROT.with(|r| r.set(0));
    }
    drive_all::<Vec<f64>, f64, Array1<f64>, f64>(ctx, &x, &y, len, w, "vec->array1", kind, true);
    // default-body backends
    {
        let rot = rng.below(len + 1);
        let (dx, dy) = (deque_of(&x, rot), deque_of(&y, rng.below(len + 1)));
        ctx.count(if deque_is_wrapped(&dx) { "deque_wrapped" } else { "deque_contiguous" });
        drive_all::<VecDeque<f64>, f64, VecDeque<f64>, f64>(ctx, &dx, &dy, len, w, "deque->deque", kind, true);
        if len > 0 {
            BUF_ROT.with(|r| r.set(1 + rng.below(len)));
            drive_all::<VecDeque<f64>, f64, VecDeque<f64>, f64>(ctx, &dx, &dy, len, w, "deque->deque(rotated buffer)", kind, true);
            BUF_ROT.with(|r| r.set(0));
        }
        drive_all::<VecDeque<f64>, f64, Vec<f64>, f64>(ctx, &dx, &dy, len, w, "deque->vec", kind, true);
    }
    {
        let (ax, ay) = (nd_owned(&x), nd_owned(&y));
        drive_all::<Array1<f64>, f64, Array1<f64>, f64>(ctx, &ax, &ay, len, w, "array1->array1", kind, true);
        drive_all::<Array1<f64>, f64, Vec<f64>, f64>(ctx, &ax, &ay, len, w, "array1->vec", kind, true);
        let step = *rng.pick(&[2isize, 3, -1, -2]);
        let (bx, by) = (nd_base(&x, step, -1.0), nd_base(&y, step, -2.0));
        let (vx, vy) = (nd_view(&bx, step), nd_view(&by, step));
        ctx.count(&format!("ndview.step{step}"));
        drive_apply::<ArrayView1<f64>, f64, Vec<f64>, f64>(ctx, &vx, &vy, len, w, "arrayview1(strided)->vec", kind, true);
        drive_apply::<ArrayView1<f64>, f64, SpyOut<f64>, f64>(ctx, &vx, &vy, len, w, "arrayview1(strided)->spyout", kind, true);
        if !ctx.is_sanitizer_mode() {
            // the slice drivers need `for<'a> SliceOutput<'a>` and hence a 'static view: leak the bases
            // (native modes only; a few dozen bytes per case)
            let (lx, ly): (&'static Array1<f64>, &'static Array1<f64>) = (Box::leak(Box::new(bx.clone())), Box::leak(Box::new(by.clone())));
            let (sx, sy) = (nd_view(lx, step), nd_view(ly, step));
            drive_slices::<ArrayView1<'static, f64>, f64, Vec<f64>, f64>(ctx, &sx, &sy, len, w, "arrayview1(strided)->vec", kind, true);
        }
    }
    {
        let (ax, ay) = (arc_vec(&x), arc_vec(&y));
        drive_all::<Arc<Vec<f64>>, f64, Vec<f64>, f64>(ctx, &ax, &ay, len, w, "arc<vec>->vec", kind, true);
        let (nx, ny) = (arc_nd(&x), arc_nd(&y));
        drive_all::<Arc<Array1<f64>>, f64, Array1<f64>, f64>(ctx, &nx, &ny, len, w, "arc<array1>->array1", kind, true);
    }
    {
        let (ox, oy) = (x.opt(), y.opt());
        drive_apply::<_, Option<f64>, Vec<f64>, f64>(ctx, &ox, &oy, len, w, "optiter(vec)->vec", kind, true);
        if !ctx.is_sanitizer_mode() {
            let (lx, ly): (&'static Vec<f64>, &'static Vec<f64>) = (Box::leak(Box::new(x.clone())), Box::leak(Box::new(y.clone())));
            let (sx, sy) = (lx.opt(), ly.opt());
            drive_slices::<_, Option<f64>, Vec<f64>, f64>(ctx, &sx, &sy, len, w, "optiter(vec)->vec", kind, true);
        }
    }
    {
        let (sx, sy) = (SpyVec::new(x.clone()), SpyVec::new(y.clone()));
        drive_all::<SpyVec<f64>, f64, SpyOut<f64>, f64>(ctx, &sx, &sy, len, w, "spy->spyout", kind, true);
        let (fx, fy) = (SpyVecFast::new(x.clone()), SpyVecFast::new(y.clone()));
        drive_all::<SpyVecFast<f64>, f64, SpyOut<f64>, f64>(ctx, &fx, &fy, len, w, "spyfast->spyout", kind, true);
        let l = fx.take_log();
        ctx.count_n("spy.ugets", l.ugets);
        ctx.count_n("spy.uslices", l.uslices);
    }
    #[cfg(feature = "polars")]
    {
        use tevec::export::polars::prelude::Float64Chunked;
        let xo: Vec<Option<f64>> = x.iter().map(|v| Some(*v)).collect();
        let yo: Vec<Option<f64>> = y.iter().map(|v| Some(*v)).collect();
        let nch = rng.range_usize(1, 3);
        let (px, py) = (pl::f64_chunked(&xo, nch), pl::f64_chunked(&yo, rng.range_usize(1, 3)));
        ctx.count(&format!("polars.chunks{}", pl::n_chunks(&px)));
        drive_all::<Float64Chunked, Option<f64>, Vec<f64>, f64>(ctx, &px, &py, len, w, "polars->vec", kind, true);
        // polars as output container: only the collecting (returned) path exists for it
        drive_all::<Float64Chunked, Option<f64>, Float64Chunked, Option<f64>>(ctx, &px, &py, len, w, "polars->polars", kind, false);
        let (dx, dy) = (deque_of(&x, 0), deque_of(&y, 0));
        drive_all::<VecDeque<f64>, f64, Float64Chunked, Option<f64>>(ctx, &dx, &dy, len, w, "deque->polars", kind, false);
    }
}

fn main() {
    let mut ctx = Ctx::from_args("C02");
    let miri = ctx.is_sanitizer_mode();
    let nmax = if miri { ctx.budget(6, 9) } else { ctx.budget(14, 28) };
    for len in 0..=nmax {
        for w in 1..=len + 3 {
            for kind in [CbKind::Recording, CbKind::Stateful] {
                if let Some(mut rng) = ctx.sweep_case() {
                    run_case(&mut ctx, &mut rng, len, w, kind, true);
                }
            }
        }
    }
    // fault injection: callback panics at every position k
    let pmax = if miri { ctx.budget(4, 6) } else { ctx.budget(7, 12) };
    for len in 1..=pmax {
        for w in 1..=len + 1 {
            for k in 0..len {
                if let Some(mut rng) = ctx.sweep_case() {
                    run_case(&mut ctx, &mut rng, len, w, CbKind::PanicAt(k), !miri || k % 2 == 0);
                }
            }
        }
    }
    // random larger cases
    let nr = if miri { 0 } else { ctx.cbudget(60, 1500) };
    for _ in 0..nr {
        if let Some(mut rng) = ctx.random_case() {
            let len = rng.range_usize(20, 300);
            let w = if rng.chance(0.8) { rng.range_usize(1, len) } else { rng.range_usize(len, len + 3) };
            let kind = if rng.chance(0.5) { CbKind::Recording } else { CbKind::Stateful };
            run_case(&mut ctx, &mut rng, len, w, kind, true);
        }
    }
    std::process::exit(ctx.finish());
}
