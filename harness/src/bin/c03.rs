//! C03 — rolling extrema, arg-extrema, rank and normalisation are exact per window.
use std::collections::VecDeque;

use tevec::prelude::Vec1View;
use tvmon::ctx::Ctx;
use tvmon::rng::Rng;
use tvmon::rollreg::*;
use tvmon::runner::*;
use tvmon::spy::{SpyVec, SpyVecFast};
use tvmon::wl::*;

/// state events the workload actually drove (computed from the series, independent of the library)
fn state_events(ctx: &mut Ctx, x: &Series, w: usize) {
    let len = x.len();
    let wc = w.min(len).max(1);
    let mut prev_min_pos: Option<usize> = None;
    for i in 0..len {
        let start = (i + 1).saturating_sub(wc);
        let vals: Vec<(usize, f64)> = (start..=i).filter_map(|j| x[j].map(|v| (j, v))).collect();
        if vals.is_empty() {
            ctx.count("state.all_null_window");
            prev_min_pos = None;
            continue;
        }
        let mn = vals.iter().map(|p| p.1).fold(f64::INFINITY, f64::min);
        let ties = vals.iter().filter(|p| p.1 == mn).count();
        if ties > 1 {
            ctx.count("state.tied_extreme");
        }
        if let Some(pp) = prev_min_pos {
            if pp < start {
                ctx.count("state.extreme_expired");
                if x[i].is_none() {
                    ctx.count("state.extreme_expired_newest_null");
                }
            }
        }
        prev_min_pos = vals.iter().filter(|p| p.1 == mn).map(|p| p.0).max();
        // zero-spread window of inexact floats whose value was already present before the
        // previous interruption (c, d, c, c): the run counter of ts_vzscore decides, not var > EPS
        if vals.len() >= 2 && vals.iter().all(|p| p.1 == mn) && (mn * 8.0).fract() != 0.0 {
            ctx.count("state.constant_inexact_window");
            let mut j = start;
            let mut seen_other = false;
            let mut interrupted = false;
            while j > 0 && start - j < 2 * wc {
                j -= 1;
                if let Some(v) = x[j] {
                    if v != mn {
                        seen_other = true;
                    } else if seen_other {
                        interrupted = true;
                        break;
                    }
                }
            }
            if interrupted {
                ctx.count("state.constant_inexact_window_after_interrupted_run");
            }
        }
    }
}

fn run_combos(ctx: &mut Ctx, rng: &mut Rng, x: &Series, w: usize, mp: Option<usize>, class: &str, full: bool) {
    let nulls = has_nulls(x);
    let int_valued = x.iter().flatten().all(|f| f.fract() == 0.0);
    let xf64 = enc_f64(x);
    let xopt = enc_opt_f64(x);
    // DESIGN §5.3: omitted min_periods with len < w is not judged for the extrema/rank family's mask
    let skip = mp.is_none() && x.len() < w;
    for rf in CMP_FNS {
        let path = if rng.chance(0.5) { Path::Ret } else { Path::Buf };
        let mut o = tvmon::monitor::JudgeOpts::default();
        o.skip_mask = skip && rf.is_cmp_family();
        let c = |label: &'static str| Call::new(rf, x, w, mp, path, label, class).opts(o);
        run_valid1::<Vec<f64>, f64, Vec<f64>, f64>(ctx, &c("vec<f64>->vec<f64>"), &xf64);
        {
            let sp = SpyVecFast::new(xf64.clone());
            run_valid1::<SpyVecFast<f64>, f64, Vec<f64>, f64>(ctx, &c("spyfast<f64>->vec<f64>"), &sp);
            let lg = sp.take_log();
            ctx.count_n("spy.ugets", lg.ugets);
            if !matches!(rf, Rf::VRank(_, _) | Rf::VZscore) {
                ctx.count_n("spy.rescans_observed", lg.bursts);
            }
        }
        if full {
            run_valid1::<Vec<Option<f64>>, Option<f64>, Vec<Option<f64>>, Option<f64>>(ctx, &c("vec<opt f64>->vec<opt f64>"), &xopt);
            run_valid1::<Vec<f64>, f64, Vec<f32>, f32>(ctx, &c("vec<f64>->vec<f32>"), &xf64);
            {
                let sp = SpyVec::new(xf64.clone());
                run_valid1::<SpyVec<f64>, f64, Vec<f64>, f64>(ctx, &c("spy<f64>->vec<f64>"), &sp);
            }
            let dq = deque_of(&xf64, rng.below(x.len().max(1) + 1));
            if deque_is_wrapped(&dq) {
                ctx.count("deque_wrapped");
            }
            run_valid1::<VecDeque<f64>, f64, VecDeque<f64>, f64>(ctx, &c("deque<f64>->deque<f64>"), &dq);
            {
                let oi = xf64.opt();
                run_valid1::<_, Option<f64>, Vec<Option<f64>>, Option<f64>>(ctx, &c("optiter(vec<f64>)->vec<opt f64>"), &oi);
            }
            if int_valued {
                let xoi = enc_opt_i32(x);
                run_valid1::<Vec<Option<i32>>, Option<i32>, Vec<Option<i32>>, Option<i32>>(ctx, &c("vec<opt i32>->vec<opt i32>"), &xoi);
                run_valid1::<Vec<Option<i32>>, Option<i32>, Vec<f64>, f64>(ctx, &c("vec<opt i32>->vec<f64>"), &xoi);
                if !nulls {
                    let xi = enc_i32(x);
                    run_valid1::<Vec<i32>, i32, Vec<f64>, f64>(ctx, &c("vec<i32>->vec<f64>"), &xi);
                    let xi64 = enc_i64(x);
                    run_valid1::<Vec<i64>, i64, Vec<Option<f64>>, Option<f64>>(ctx, &c("vec<i64>->vec<opt f64>"), &xi64);
                }
            }
        }
    }
    state_events(ctx, x, w);
}

fn main() {
    let mut ctx = Ctx::from_args("C03");
    // workload emphasis: tiny alphabets, monotone runs (expiry at every step), plateaus
    let emph = [
        ValClass::Alphabet3,
        ValClass::Alphabet3,
        ValClass::Increasing,
        ValClass::Decreasing,
        ValClass::Plateaus,
        ValClass::SmallInt,
        ValClass::Sawtooth,
        ValClass::Const,
        ValClass::Dyadic,
        ValClass::Alternating,
        ValClass::FloatPlateaus,
        ValClass::FloatPlateaus,
        ValClass::FloatConst,
    ];
    let nmax = ctx.budget(9, 14);
    for len in 1..=nmax {
        for w in 1..=len + 2 {
            let mut mps: Vec<Option<usize>> = vec![None];
            mps.extend((0..=w).map(Some));
            for mp in mps {
                for pat in NULL_PATTERNS {
                    if let Some(mut rng) = ctx.sweep_case() {
                        let class = *rng.pick(&emph);
                        let x = series(&mut rng, class, pat, len);
                        let cl = format!("{class:?}/{pat:?}");
                        run_combos(&mut ctx, &mut rng, &x, w, mp, &cl, true);
                    }
                }
            }
        }
    }
    let nrand = ctx.cbudget(400, 8000);
    for _ in 0..nrand {
        if let Some(mut rng) = ctx.random_case() {
            let len = rng.range_usize(1, 90);
            let w = rng.range_usize(1, len + 2);
            let mp = if rng.chance(0.2) { None } else { Some(rng.range_usize(0, w)) };
            let class = if rng.chance(0.7) { *rng.pick(&emph) } else { *rng.pick(&ALL_CLASSES) };
            let pat = *rng.pick(&NULL_PATTERNS);
            let x = series(&mut rng, class, pat, len);
            let cl = format!("{class:?}/{pat:?}");
            run_combos(&mut ctx, &mut rng, &x, w, mp, &cl, true);
        }
    }
    // long monotone / plateau histories
    let nlong = ctx.cbudget(4, 40);
    for _ in 0..nlong {
        if let Some(mut rng) = ctx.random_case() {
            let len = rng.range_usize(2000, if ctx.thorough() { 20000 } else { 6000 });
            let w = *rng.pick(&[2usize, 3, 7, 20, 64, 200]);
            let class = *rng.pick(&emph);
            let pat = *rng.pick(&[NullPat::NoNulls, NullPat::Random10, NullPat::Blocks, NullPat::Random50]);
            let x = series(&mut rng, class, pat, len);
            let cl = format!("long/{class:?}/{pat:?}");
            ctx.count("long_histories");
            let mp = Some(rng.range_usize(0, w));
            run_combos(&mut ctx, &mut rng, &x, w, mp, &cl, false);
        }
    }
    std::process::exit(ctx.finish());
}
