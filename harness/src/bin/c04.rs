//! C04 — rolling covariance, correlation and regressions equal per-window least squares.
use std::collections::VecDeque;

use tevec::prelude::Vec1View;
use tvmon::ctx::Ctx;
use tvmon::rng::Rng;
use tvmon::rollreg::*;
use tvmon::runner::*;
use tvmon::wl::*;

#[derive(Clone, Copy, Debug)]
enum Rel {
    Independent,
    /// y = a + b x exactly (integers): perfect fit, zero residual
    Collinear,
    /// y = a + b x + small integer noise
    Noisy,
    /// x constant (regression undefined), y free
    ConstX,
}

fn make_pair(rng: &mut Rng, len: usize, exact: bool) -> (Series, Series, String) {
    let rel = *rng.pick(&[Rel::Independent, Rel::Independent, Rel::Collinear, Rel::Noisy, Rel::ConstX]);
    let classes: &[ValClass] = if exact { &EXACT_CLASSES } else { &ALL_CLASSES };
    let cx = *rng.pick(classes);
    let xv = values(rng, cx, len);
    let yv: Vec<f64> = match rel {
        Rel::Independent => {
            let c = *rng.pick(classes);
            values(rng, c, len)
        },
        Rel::Collinear => {
            let (a, b) = (rng.range_i64(-3, 3) as f64, rng.range_i64(-2, 2) as f64);
            // keep on the exact grid: |a + b x| <= 64 when |x| <= 30; otherwise fall back to halves
            xv.iter().map(|x| a + b * x).collect()
        },
        Rel::Noisy => {
            let (a, b) = (rng.range_i64(-3, 3) as f64, rng.range_i64(-2, 2) as f64);
            xv.iter().map(|x| a + b * x + rng.range_i64(-1, 1) as f64).collect()
        },
        Rel::ConstX => {
            let c = *rng.pick(classes);
            values(rng, c, len)
        },
    };
    let xv: Vec<f64> = if matches!(rel, Rel::ConstX) { vec![xv.first().copied().unwrap_or(1.0); len] } else { xv };
    let px = *rng.pick(&NULL_PATTERNS);
    let py = *rng.pick(&NULL_PATTERNS);
    let mx = null_mask(rng, px, len);
    let my = null_mask(rng, py, len);
    // the library regresses self (first) on other (second): first = y, second = x
    let y: Series = yv.into_iter().zip(my).map(|(v, n)| if n { None } else { Some(v) }).collect();
    let x: Series = xv.into_iter().zip(mx).map(|(v, n)| if n { None } else { Some(v) }).collect();
    (y, x, format!("{rel:?}/{cx:?}/{px:?}/{py:?}"))
}

fn run_pair_combos(ctx: &mut Ctx, rng: &mut Rng, y: &Series, x: &Series, w: usize, mp: Option<usize>, class: &str, full: bool) {
    let yf = enc_f64(y);
    let xf = enc_f64(x);
    let int_valued = y.iter().chain(x.iter()).flatten().all(|f| f.fract() == 0.0 && f.abs() < 1e6);
    for rf in PAIR_FNS {
        let path = if rf.has_buf_path() && rng.chance(0.5) { Path::Buf } else { Path::Ret };
        let c = |label: &'static str| Call::new(rf, y, w, mp, path, label, class).with_y(x);
        run_valid2::<Vec<f64>, f64, Vec<f64>, f64, Vec<f64>, f64>(ctx, &c("vec<f64>,vec<f64>->vec<f64>"), &yf, &xf);
        if full {
            let yo = enc_opt_f64(y);
            let xo = enc_opt_f64(x);
            run_valid2::<Vec<Option<f64>>, Option<f64>, Vec<Option<f64>>, Option<f64>, Vec<Option<f64>>, Option<f64>>(ctx, &c("vec<opt f64>,vec<opt f64>->vec<opt f64>"), &yo, &xo);
            run_valid2::<Vec<f64>, f64, Vec<Option<f64>>, Option<f64>, Vec<f32>, f32>(ctx, &c("vec<f64>,vec<opt f64>->vec<f32>"), &yf, &xo);
            let dq = deque_of(&xf, rng.below(x.len().max(1) + 1));
            run_valid2::<Vec<f64>, f64, VecDeque<f64>, f64, Vec<f64>, f64>(ctx, &c("vec<f64>,deque<f64>->vec<f64>"), &yf, &dq);
            let dqy = deque_of(&yf, rng.below(x.len().max(1) + 1));
            run_valid2::<VecDeque<f64>, f64, Vec<f64>, f64, VecDeque<f64>, f64>(ctx, &c("deque<f64>,vec<f64>->deque<f64>"), &dqy, &xf);
            {
                let oi = yf.opt();
                run_valid2::<_, Option<f64>, Vec<f64>, f64, Vec<f64>, f64>(ctx, &c("optiter(vec<f64>),vec<f64>->vec<f64>"), &oi, &xf);
            }
            // the regressor (second series) in a narrower element type: the values are first rounded through
            // f32 so that the reference sees exactly what the library is given
            let x32: Series = x.iter().map(|v| v.map(|f| f as f32 as f64)).collect();
            if x32.iter().flatten().all(|f| f.is_finite()) {
                let xf32 = enc_f32(&x32);
                let c32 = Call::new(rf, y, w, mp, path, "vec<f64>,vec<f32>->vec<f64>", class).with_y(&x32);
                run_valid2::<Vec<f64>, f64, Vec<f32>, f32, Vec<f64>, f64>(ctx, &c32, &yf, &xf32);
                ctx.count("state.regressor_f32");
            }
            if int_valued {
                let yi64 = enc_opt_i64(y);
                let xi32 = enc_opt_i32(x);
                run_valid2::<Vec<Option<i64>>, Option<i64>, Vec<Option<i32>>, Option<i32>, Vec<f64>, f64>(ctx, &c("vec<opt i64>,vec<opt i32>->vec<f64>"), &yi64, &xi32);
                ctx.count("state.regressor_i32");
            }
            if int_valued {
                let yi = enc_opt_i32(y);
                let xi = enc_opt_i64(x);
                run_valid2::<Vec<Option<i32>>, Option<i32>, Vec<Option<i64>>, Option<i64>, Vec<f64>, f64>(ctx, &c("vec<opt i32>,vec<opt i64>->vec<f64>"), &yi, &xi);
                if !has_nulls(y) && !has_nulls(x) {
                    let yi = enc_i32(y);
                    let xi = enc_i64(x);
                    run_valid2::<Vec<i32>, i32, Vec<i64>, i64, Vec<f64>, f64>(ctx, &c("vec<i32>,vec<i64>->vec<f64>"), &yi, &xi);
                }
            }
        }
    }
}

fn run_trend_combos(ctx: &mut Ctx, rng: &mut Rng, x: &Series, w: usize, mp: Option<usize>, class: &str, full: bool) {
    let xf = enc_f64(x);
    let int_valued = x.iter().flatten().all(|f| f.fract() == 0.0 && f.abs() < 1e6);
    for rf in TREND_FNS {
        let path = if rng.chance(0.5) { Path::Buf } else { Path::Ret };
        let c = |label: &'static str| Call::new(rf, x, w, mp, path, label, class);
        run_valid1::<Vec<f64>, f64, Vec<f64>, f64>(ctx, &c("vec<f64>->vec<f64>"), &xf);
        if full {
            let xo = enc_opt_f64(x);
            run_valid1::<Vec<Option<f64>>, Option<f64>, Vec<Option<f64>>, Option<f64>>(ctx, &c("vec<opt f64>->vec<opt f64>"), &xo);
            run_valid1::<Vec<f64>, f64, Vec<f32>, f32>(ctx, &c("vec<f64>->vec<f32>"), &xf);
            let dq = deque_of(&xf, rng.below(x.len().max(1) + 1));
            run_valid1::<VecDeque<f64>, f64, VecDeque<f64>, f64>(ctx, &c("deque<f64>->deque<f64>"), &dq);
            if int_valued {
                let xi = enc_opt_i32(x);
                run_valid1::<Vec<Option<i32>>, Option<i32>, Vec<f64>, f64>(ctx, &c("vec<opt i32>->vec<f64>"), &xi);
            }
        }
    }
}

/// series that is exactly linear in time inside every window (zero residual): a + b t
fn linear_series(rng: &mut Rng, len: usize) -> Series {
    let (a, b) = (rng.range_i64(-5, 5) as f64, rng.range_i64(-3, 3) as f64 / 4.0);
    (0..len).map(|t| Some(a + b * (t % 40) as f64)).collect()
}

fn main() {
    let mut ctx = Ctx::from_args("C04");
    let nmax = ctx.budget(8, 12);
    for len in 0..=nmax {
        for w in 2..=len + 2 {
            let mut mps: Vec<Option<usize>> = vec![None];
            mps.extend((0..=w).map(Some));
            for mp in mps {
                for _rep in 0..4 {
                    if let Some(mut rng) = ctx.sweep_case() {
                        let (y, x, cl) = make_pair(&mut rng, len, true);
                        run_pair_combos(&mut ctx, &mut rng, &y, &x, w, mp, &cl, true);
                        let pat = *rng.pick(&NULL_PATTERNS);
                        let class = *rng.pick(&EXACT_CLASSES);
                        let s = series(&mut rng, class, pat, len);
                        run_trend_combos(&mut ctx, &mut rng, &s, w, mp, &format!("{class:?}/{pat:?}"), true);
                    }
                }
            }
        }
    }
    let nrand = ctx.cbudget(300, 6000);
    for k in 0..nrand {
        if let Some(mut rng) = ctx.random_case() {
            let len = rng.range_usize(2, 70);
            let w = rng.range_usize(2, len + 2);
            let mp = if rng.chance(0.2) { None } else { Some(rng.range_usize(0, w)) };
            let (y, x, cl) = make_pair(&mut rng, len, k % 3 == 0);
            run_pair_combos(&mut ctx, &mut rng, &y, &x, w, mp, &cl, true);
            if k % 5 == 0 {
                let s = linear_series(&mut rng, len);
                ctx.count("perfect_linear_series");
                run_trend_combos(&mut ctx, &mut rng, &s, w.min(35), mp.map(|m| m.min(w.min(35))), "linear", true);
            } else {
                let (s, c, p) = random_series(&mut rng, &ALL_CLASSES, len);
                run_trend_combos(&mut ctx, &mut rng, &s, w, mp, &format!("{c:?}/{p:?}"), true);
            }
        }
    }
    let nlong = ctx.cbudget(4, 40);
    for k in 0..nlong {
        if let Some(mut rng) = ctx.random_case() {
            let len = rng.range_usize(3000, if ctx.thorough() { 40000 } else { 8000 });
            let w = *rng.pick(&[2usize, 3, 5, 10, 30, 100, 300]);
            let mp = Some(rng.range_usize(1, w));
            let (y, x, cl) = make_pair(&mut rng, len, k % 3 != 2);
            ctx.count("long_histories");
            run_pair_combos(&mut ctx, &mut rng, &y, &x, w, mp, &format!("long/{cl}"), false);
            let class = if k % 3 != 2 { *rng.pick(&EXACT_CLASSES) } else { *rng.pick(&FLOAT_CLASSES) };
            let pat = *rng.pick(&[NullPat::NoNulls, NullPat::Random10, NullPat::Blocks]);
            let s = series(&mut rng, class, pat, len);
            run_trend_combos(&mut ctx, &mut rng, &s, w, mp, &format!("long/{class:?}/{pat:?}"), false);
        }
    }
    std::process::exit(ctx.finish());
}
