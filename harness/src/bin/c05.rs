//! C05 — every rolling function returns one output per input (no panic, empty in → empty out)
//! and is null exactly during warm-up / below the intrinsic minimum.
use std::collections::VecDeque;
use std::sync::Arc;

use tevec::export::ndarray::{Array1, ArrayView1, ArrayViewMut1};
use tevec::prelude::Vec1View;
use tvmon::backends::*;
use tvmon::ctx::Ctx;
use tvmon::monitor::JudgeOpts;
use tvmon::rng::Rng;
use tvmon::rollreg::*;
use tvmon::runner::*;
use tvmon::spy::{SpyVec, SpyVecFast};
use tvmon::wl::*;

fn opts_for(rf: Rf, x: &Series, w: usize, mp: Option<usize>) -> JudgeOpts {
    let mut o = JudgeOpts::default();
    o.values = false;
    // DESIGN §5.3
    o.skip_mask = rf.is_cmp_family() && mp.is_none() && x.len() < w;
    o
}

struct Case<'a> {
    x: &'a Series,
    y: &'a Series,
    w: usize,
    mp: Option<usize>,
    class: &'a str,
}

/// all null-aware single-series functions on one backend value
macro_rules! valid1_on {
    ($ctx:expr, $rng:expr, $cs:expr, $v:expr, $V:ty, $T:ty, $label:expr) => {{
        for rf in valid1_fns() {
            let path = if $rng.chance(0.5) { Path::Ret } else { Path::Buf };
            let c = Call::new(rf, $cs.x, $cs.w, $cs.mp, path, $label, $cs.class).opts(opts_for(rf, $cs.x, $cs.w, $cs.mp));
            run_valid1::<$V, $T, Vec<f64>, f64>($ctx, &c, $v);
        }
        $ctx.count(&format!("backend.{}", $label));
    }};
}

macro_rules! plain_on {
    ($ctx:expr, $rng:expr, $cs:expr, $v:expr, $V:ty, $T:ty, $label:expr) => {{
        for rf in PLAIN_FNS {
            let path = if $rng.chance(0.5) { Path::Ret } else { Path::Buf };
            let c = Call::new(rf, $cs.x, $cs.w, $cs.mp, path, $label, $cs.class).opts(opts_for(rf, $cs.x, $cs.w, $cs.mp));
            run_plain1::<$V, $T, Vec<f64>, f64>($ctx, &c, $v);
        }
    }};
}

macro_rules! pair_on {
    ($ctx:expr, $rng:expr, $cs:expr, $v:expr, $V:ty, $T:ty, $v2:expr, $V2:ty, $T2:ty, $label:expr) => {{
        for rf in PAIR_FNS {
            let path = if rf.has_buf_path() && $rng.chance(0.5) { Path::Buf } else { Path::Ret };
            let c = Call::new(rf, $cs.x, $cs.w, $cs.mp, path, $label, $cs.class)
                .with_y($cs.y)
                .opts(opts_for(rf, $cs.x, $cs.w, $cs.mp));
            run_valid2::<$V, $T, $V2, $T2, Vec<f64>, f64>($ctx, &c, $v, $v2);
        }
    }};
}

fn fixed_array_backends(ctx: &mut Ctx, rng: &mut Rng, cs: &Case, xf: &[f64]) {
    macro_rules! arr {
        ($n:literal) => {{
            let a: [f64; $n] = std::array::from_fn(|i| xf[i]);
            valid1_on!(ctx, rng, cs, &a, [f64; $n], f64, concat!("[f64;", stringify!($n), "]"));
            if !has_nulls(cs.x) {
                plain_on!(ctx, rng, cs, &a, [f64; $n], f64, concat!("[f64;", stringify!($n), "]"));
            }
        }};
    }
    match xf.len() {
        0 => arr!(0),
        1 => arr!(1),
        2 => arr!(2),
        3 => arr!(3),
        5 => arr!(5),
        8 => arr!(8),
        _ => {},
    }
}

fn run_all_backends(ctx: &mut Ctx, rng: &mut Rng, cs: &Case, full: bool) {
    let x = cs.x;
    let nulls = has_nulls(x);
    let xf = enc_f64(x);
    let yf = enc_f64(cs.y);
    let xo = enc_opt_f64(x);
    let yo = enc_opt_f64(cs.y);
    let int_valued = x.iter().flatten().all(|f| f.fract() == 0.0 && f.abs() < 1e6);

    // Vec (fast path), extra output encodings
    valid1_on!(ctx, rng, cs, &xf, Vec<f64>, f64, "vec<f64>");
    pair_on!(ctx, rng, cs, &xf, Vec<f64>, f64, &yf, Vec<f64>, f64, "vec<f64>,vec<f64>");
    if !nulls {
        plain_on!(ctx, rng, cs, &xf, Vec<f64>, f64, "vec<f64>");
    }
    for rf in valid1_fns() {
        let c = Call::new(rf, x, cs.w, cs.mp, Path::Ret, "vec<f64>->vec<opt f64>", cs.class).opts(opts_for(rf, x, cs.w, cs.mp));
        run_valid1::<Vec<f64>, f64, Vec<Option<f64>>, Option<f64>>(ctx, &c, &xf);
        // integer outputs (DESIGN §5.8); ts_vmin/ts_vmax cannot encode a null in a plain integer
        if !matches!(rf, Rf::VMin | Rf::VMax) {
            let c = Call::new(rf, x, cs.w, cs.mp, Path::Buf, "vec<f64>->vec<i32>", cs.class).opts(opts_for(rf, x, cs.w, cs.mp));
            run_valid1::<Vec<f64>, f64, Vec<i32>, i32>(ctx, &c, &xf);
        }
        let c = Call::new(rf, x, cs.w, cs.mp, Path::Ret, "vec<f64>->vec<opt i32>", cs.class).opts(opts_for(rf, x, cs.w, cs.mp));
        run_valid1::<Vec<f64>, f64, Vec<Option<i32>>, Option<i32>>(ctx, &c, &xf);
    }
    if !full {
        return;
    }
    valid1_on!(ctx, rng, cs, &xo, Vec<Option<f64>>, Option<f64>, "vec<opt f64>");
    pair_on!(ctx, rng, cs, &xo, Vec<Option<f64>>, Option<f64>, &yo, Vec<Option<f64>>, Option<f64>, "vec<opt f64>,vec<opt f64>");
    fixed_array_backends(ctx, rng, cs, &xf);
    {
        let dq = deque_of(&xf, rng.below(x.len() + 1));
        if deque_is_wrapped(&dq) {
            ctx.count("deque_wrapped");
        } else {
            ctx.count("deque_contiguous");
        }
        valid1_on!(ctx, rng, cs, &dq, VecDeque<f64>, f64, "deque<f64>");
        let dqy = deque_of(&yf, rng.below(x.len() + 1));
        pair_on!(ctx, rng, cs, &dq, VecDeque<f64>, f64, &dqy, VecDeque<f64>, f64, "deque<f64>,deque<f64>");
        if !nulls {
            plain_on!(ctx, rng, cs, &dq, VecDeque<f64>, f64, "deque<f64>");
        }
    }
    {
        let a = nd_owned(&xf);
        valid1_on!(ctx, rng, cs, &a, Array1<f64>, f64, "array1<f64>");
        let ay = nd_owned(&yf);
        pair_on!(ctx, rng, cs, &a, Array1<f64>, f64, &ay, Array1<f64>, f64, "array1<f64>,array1<f64>");
        if !nulls {
            plain_on!(ctx, rng, cs, &a, Array1<f64>, f64, "array1<f64>");
        }
        let step = *rng.pick(&[1isize, 2, 3, -1, -2]);
        let base = nd_base(&xf, step, 777.25);
        let v = nd_view(&base, step);
        ctx.count(&format!("ndview.step{step}"));
        valid1_on!(ctx, rng, cs, &v, ArrayView1<f64>, f64, "arrayview1<f64>");
        pair_on!(ctx, rng, cs, &v, ArrayView1<f64>, f64, &yf, Vec<f64>, f64, "arrayview1<f64>,vec<f64>");
        let mut base2 = nd_base(&xf, step, -555.5);
        let vm = nd_view_mut(&mut base2, step);
        valid1_on!(ctx, rng, cs, &vm, ArrayViewMut1<f64>, f64, "arrayviewmut1<f64>");
    }
    {
        let av = arc_vec(&xf);
        valid1_on!(ctx, rng, cs, &av, Arc<Vec<f64>>, f64, "arc<vec<f64>>");
        pair_on!(ctx, rng, cs, &av, Arc<Vec<f64>>, f64, &yf, Vec<f64>, f64, "arc<vec<f64>>,vec<f64>");
        let an = arc_nd(&xf);
        valid1_on!(ctx, rng, cs, &an, Arc<Array1<f64>>, f64, "arc<array1<f64>>");
    }
    {
        let oi = xf.opt();
        valid1_on!(ctx, rng, cs, &oi, _, Option<f64>, "optiter(vec<f64>)");
        pair_on!(ctx, rng, cs, &oi, _, Option<f64>, &yo, Vec<Option<f64>>, Option<f64>, "optiter(vec<f64>),vec<opt f64>");
    }
    {
        let sp = SpyVec::new(xf.clone());
        valid1_on!(ctx, rng, cs, &sp, SpyVec<f64>, f64, "spy<f64>");
        let sp = SpyVecFast::new(xf.clone());
        valid1_on!(ctx, rng, cs, &sp, SpyVecFast<f64>, f64, "spyfast<f64>");
    }
    if int_valued {
        let xi = enc_opt_i32(x);
        valid1_on!(ctx, rng, cs, &xi, Vec<Option<i32>>, Option<i32>, "vec<opt i32>");
        if !nulls {
            let xi = enc_i32(x);
            valid1_on!(ctx, rng, cs, &xi, Vec<i32>, i32, "vec<i32>");
            plain_on!(ctx, rng, cs, &xi, Vec<i32>, i32, "vec<i32>");
            let xl = enc_i64(x);
            plain_on!(ctx, rng, cs, &xl, Vec<i64>, i64, "vec<i64>");
        }
    }
    #[cfg(feature = "polars")]
    {
        use tevec::export::polars::prelude::Float64Chunked;
        let nch = rng.range_usize(1, 3);
        let ca = pl::f64_chunked(&xo, nch);
        ctx.count(&format!("polars.chunks{}", pl::n_chunks(&ca)));
        valid1_on!(ctx, rng, cs, &ca, Float64Chunked, Option<f64>, "polars<f64>");
        let cy = pl::f64_chunked(&yo, rng.range_usize(1, 3));
        pair_on!(ctx, rng, cs, &ca, Float64Chunked, Option<f64>, &cy, Float64Chunked, Option<f64>, "polars<f64>,polars<f64>");
    }
}

fn main() {
    let mut ctx = Ctx::from_args("C05");
    // mask is an exact boolean law: integer-valued exact classes decide definedness exactly;
    // a quarter of the cases use float classes (borderline definedness → unconstrained)
    let nmax = ctx.budget(8, 12);
    for len in 0..=nmax {
        for w in 1..=len + 3 {
            let mut mps: Vec<Option<usize>> = vec![None];
            mps.extend((0..=w).map(Some));
            for mp in mps {
                for pat in NULL_PATTERNS {
                    if let Some(mut rng) = ctx.sweep_case() {
                        // caller-supplied VecDeque buffers: half of the cases with a rotated (physically wrapped) ring buffer
                        tvmon::rollreg::BUF_ROT.with(|r| r.set(if rng.chance(0.5) { 0 } else { 1 + rng.below(8) }));
                        let class = *rng.pick(&INT_CLASSES);
                        let x = series(&mut rng, class, pat, len);
                        let cy = *rng.pick(&INT_CLASSES);
                        let py = *rng.pick(&NULL_PATTERNS);
                        let y = series(&mut rng, cy, py, len);
                        let cl = format!("{class:?}/{pat:?}");
                        if len == 0 {
                            ctx.count("empty_input_cases");
                        }
                        let cs = Case { x: &x, y: &y, w, mp, class: &cl };
                        run_all_backends(&mut ctx, &mut rng, &cs, true);
                    }
                }
            }
        }
    }
    let nrand = ctx.cbudget(200, 4000);
    for k in 0..nrand {
        if let Some(mut rng) = ctx.random_case() {
            // caller-supplied VecDeque buffers: half of the cases with a rotated (physically wrapped) ring buffer
            tvmon::rollreg::BUF_ROT.with(|r| r.set(if rng.chance(0.5) { 0 } else { 1 + rng.below(8) }));
            let len = rng.range_usize(0, 60);
            let w = rng.range_usize(1, len + 3);
            let mp = if rng.chance(0.3) { None } else { Some(rng.range_usize(0, w)) };
            let classes: &[ValClass] = if k % 4 == 0 { &ALL_CLASSES } else { &INT_CLASSES };
            let (x, c, p) = random_series(&mut rng, classes, len);
            let (y, _, _) = random_series(&mut rng, classes, len);
            let cl = format!("{c:?}/{p:?}");
            let cs = Case { x: &x, y: &y, w, mp, class: &cl };
            run_all_backends(&mut ctx, &mut rng, &cs, true);
        }
    }
    std::process::exit(ctx.finish());
}
