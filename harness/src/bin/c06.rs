//! C06 — rolling and lagging results never depend on later (or pre-window) data.
//! Relational monitor over pairs of executions of the real code.
use std::collections::VecDeque;

/// cap on items taken from a library iterator: a runaway iterator becomes a length violation, not an OOM
const CAP: usize = 200_000;

use tevec::prelude::{CollectTrustedToVec, MapBasic, MapValidBasic, MapValidVec, TIter, Vec1View};
use tvmon::ctx::{Ctx, catch};
use tvmon::model::Expect;
use tvmon::rng::Rng;
use tvmon::rollreg::*;
use tvmon::wl::*;

fn bits_eq(a: f64, b: f64) -> bool {
    (a.is_nan() && b.is_nan()) || a.to_bits() == b.to_bits()
}

#[derive(Clone, Copy, Debug)]
enum Backend {
    Vec,
    Deque,
}

fn call(rf: Rf, be: Backend, x: &[f64], y: &[f64], w: usize, mp: Option<usize>, path: Path) -> Result<Vec<f64>, String> {
    catch(|| match be {
        Backend::Vec => call_vec_f64(rf, &x.to_vec(), &y.to_vec(), w, mp, path),
        Backend::Deque => {
            let dx: VecDeque<f64> = x.iter().copied().collect();
            let dy: VecDeque<f64> = y.iter().copied().collect();
            let o: VecDeque<f64> = call_generic_f64::<VecDeque<f64>, VecDeque<f64>>(rf, &dx, &dy, w, mp, path);
            o.into_iter().collect()
        },
    })
}

fn desc(rf: Rf, be: Backend, x: &[f64], y: &[f64], w: usize, mp: Option<usize>) -> String {
    format!("{} [{be:?}] w={w} min_periods={mp:?} x={} y={}", rf.name(), fmt_f64s(x), if rf.is_pair() { fmt_f64s(y) } else { "-".into() })
}

/// (i) prefix law for one rolling function
fn prefix_roll(ctx: &mut Ctx, rng: &mut Rng, rf: Rf, x: &[f64], y: &[f64], w: usize, mp: Option<usize>) {
    let be = if rng.chance(0.3) { Backend::Deque } else { Backend::Vec };
    let path = if rf.has_buf_path() && rng.chance(0.5) { Path::Buf } else { Path::Ret };
    let name = rf.name();
    let full = match call(rf, be, x, y, w, mp, path) {
        Ok(v) => v,
        Err(p) => {
            ctx.violation(&format!("{name}/panic/{}", tvmon::panic_key(&p)), || format!("panic {p}; {}", desc(rf, be, x, y, w, mp)));
            return;
        },
    };
    ctx.evaluations += 1;
    let mut nontrivial = false;
    for k in 0..=x.len() {
        // omitted min_periods: only cuts with k >= w are in the property's domain
        if mp.is_none() && k < w {
            continue;
        }
        let pre = match call(rf, be, &x[..k], &y[..k], w, mp, path) {
            Ok(v) => v,
            Err(p) => {
                ctx.violation(&format!("{name}/panic/{}", tvmon::panic_key(&p)), || {
                    format!("panic {p} on prefix of length {k}; {}", desc(rf, be, x, y, w, mp))
                });
                return;
            },
        };
        ctx.evaluations += 1;
        if pre.len() != k {
            ctx.violation(&format!("{name}/length"), || format!("prefix result has length {} != {k}; {}", pre.len(), desc(rf, be, x, y, w, mp)));
            return;
        }
        for i in 0..k {
            ctx.events += 1;
            if !bits_eq(pre[i], full[i]) {
                ctx.violation(&format!("{name}/lookahead"), || {
                    format!(
                        "output {i} differs between the prefix of length {k} ({:?}) and the whole series ({:?}); {}",
                        pre[i],
                        full[i],
                        desc(rf, be, x, y, w, mp)
                    )
                });
                return;
            }
            if !pre[i].is_nan() {
                nontrivial = true;
            }
        }
        ctx.count("prefix_pairs");
    }
    if nontrivial {
        ctx.distinct(&format!("prefix|{name}|{be:?}|{}|{w}|{mp:?}|{path:?}", x.len()));
        ctx.count(&format!("prefix_ok.{name}"));
        ctx.sample(|| format!("prefix law: {} — every prefix result equals the prefix of the full result bit for bit ({} cuts)", desc(rf, be, x, y, w, mp), x.len() + 1));
    }
}

/// (i) prefix law for the lagging map functions, n >= 0
fn prefix_map(ctx: &mut Ctx, rng: &mut Rng, x: &[f64]) {
    let len = x.len();
    let n = rng.range_usize(0, len + 3) as i32;
    let fill = if rng.chance(0.5) { None } else { Some(rng.range_i64(-3, 3) as f64) };
    let fns: [(&str, Box<dyn Fn(&[f64]) -> Vec<f64>>); 4] = [
        ("shift", Box::new(move |s: &[f64]| s.to_vec().titer().shift(n, fill.unwrap_or(-1.5)).take(CAP).collect())),
        ("vshift", Box::new(move |s: &[f64]| s.to_vec().titer().vshift(n, fill).take(CAP).collect())),
        ("vdiff", Box::new(move |s: &[f64]| s.to_vec().vdiff(n, fill).take(CAP).collect())),
        ("vpct_change", Box::new(move |s: &[f64]| s.to_vec().vpct_change(n).take(CAP).collect())),
    ];
    for (name, f) in fns.iter() {
        let full = match catch(|| f(x)) {
            Ok(v) => v,
            Err(p) => {
                ctx.violation(&format!("{name}/panic/{}", tvmon::panic_key(&p)), || format!("panic {p}; {name}(n={n}, fill={fill:?}) x={}", fmt_f64s(x)));
                continue;
            },
        };
        ctx.evaluations += 1;
        let mut ok = true;
        for k in 0..=len {
            let pre = match catch(|| f(&x[..k])) {
                Ok(v) => v,
                Err(p) => {
                    ctx.violation(&format!("{name}/panic/{}", tvmon::panic_key(&p)), || {
                        format!("panic {p}; {name}(n={n}, fill={fill:?}) on prefix {k} of x={}", fmt_f64s(x))
                    });
                    ok = false;
                    break;
                },
            };
            ctx.evaluations += 1;
            if pre.len() != k {
                ctx.violation(&format!("{name}/length"), || format!("{name}(n={n}) on prefix of length {k} returned {} items; x={}", pre.len(), fmt_f64s(x)));
                ok = false;
                break;
            }
            for i in 0..k {
                ctx.events += 1;
                if !bits_eq(pre[i], full[i]) {
                    ctx.violation(&format!("{name}/lookahead"), || {
                        format!("{name}(n={n}, fill={fill:?}): output {i} is {:?} on the prefix of length {k} but {:?} on the whole series x={}", pre[i], full[i], fmt_f64s(x))
                    });
                    ok = false;
                    break;
                }
            }
            if !ok {
                break;
            }
        }
        if ok {
            ctx.count(&format!("prefix_ok.{name}"));
            ctx.distinct(&format!("prefixmap|{name}|{len}|{n}|{}", fill.is_some()));
        }
    }
}

/// (ii) replacing the pre-window history
fn history_pair(ctx: &mut Ctx, rng: &mut Rng, rf: Rf) {
    let hl = rng.range_usize(1, 40);
    let sl = rng.range_usize(1, 40);
    let w = rng.range_usize(1, sl + 1);
    let mp = Some(rng.range_usize(0, w));
    let exact = rng.chance(0.5);
    let classes: &[ValClass] = if exact { &EXACT_CLASSES } else { &ALL_CLASSES };
    let mk = |rng: &mut Rng, len: usize, scale: f64| -> Series {
        let c = *rng.pick(classes);
        let p = if rf.is_plain() { NullPat::NoNulls } else { *rng.pick(&NULL_PATTERNS) };
        series(rng, c, p, len).into_iter().map(|v| v.map(|f| f * scale)).collect()
    };
    // histories of larger magnitude than the window's data (up to 1e3x on the float class)
    let sc = if exact { 1.0 } else { *rng.pick(&[1.0, 10.0, 1000.0]) };
    let (ha, hb) = (mk(rng, hl, sc), mk(rng, hl, 1.0));
    let (hya, hyb) = (mk(rng, hl, sc), mk(rng, hl, 1.0));
    let s = mk(rng, sl, 1.0);
    let sy = mk(rng, sl, 1.0);
    let cat = |h: &Series, s: &Series| -> Series { h.iter().chain(s.iter()).cloned().collect() };
    let (xa, xb, ya, yb) = (cat(&ha, &s), cat(&hb, &s), cat(&hya, &sy), cat(&hyb, &sy));
    let name = rf.name();
    let be = if rng.chance(0.3) { Backend::Deque } else { Backend::Vec };
    let ra = call(rf, be, &enc_f64(&xa), &enc_f64(&ya), w, mp, Path::Ret);
    let rb = call(rf, be, &enc_f64(&xb), &enc_f64(&yb), w, mp, Path::Ret);
    ctx.evaluations += 2;
    let (ra, rb) = match (ra, rb) {
        (Ok(a), Ok(b)) => (a, b),
        (Err(p), _) | (_, Err(p)) => {
            ctx.violation(&format!("{name}/panic/{}", tvmon::panic_key(&p)), || format!("panic {p}; {}", desc(rf, be, &enc_f64(&xa), &enc_f64(&ya), w, mp)));
            return;
        },
    };
    let cxa = ExCtx::for_series(&xa, Some(&ya), w, false);
    let cxb = ExCtx::for_series(&xb, Some(&yb), w, false);
    let ea = expect_roll(rf, &xa, Some(&ya), w, mp, cxa);
    let eb = expect_roll(rf, &xb, Some(&yb), w, mp, cxb);
    let mut compared = 0;
    for i in (hl + w - 1)..(hl + sl) {
        ctx.events += 1;
        let (a, b) = (ra[i], rb[i]);
        if a.is_nan() != b.is_nan() {
            // a null mask that depends on the history: only judged when both expectations are firm
            let firm = |e: &Expect| matches!(e, Expect::Null | Expect::NullTag(_) | Expect::Exact(_) | Expect::Approx { .. });
            if firm(&ea[i]) && firm(&eb[i]) {
                ctx.violation(&format!("{name}/history_null"), || {
                    format!("position {i}: {a:?} after history A but {b:?} after history B (window inside the common suffix); A: {} B: {}",
                        desc(rf, be, &enc_f64(&xa), &enc_f64(&ya), w, mp), fmt_series(&xb))
                });
                return;
            }
            ctx.count("history.unconstrained");
            continue;
        }
        if a.is_nan() {
            continue;
        }
        if rf.is_exact_result() {
            if a != b {
                ctx.violation(&format!("{name}/history_exact"), || {
                    format!("position {i}: {a:?} after history A but {b:?} after history B (must be exactly independent); A: {} B: {}",
                        desc(rf, be, &enc_f64(&xa), &enc_f64(&ya), w, mp), fmt_series(&xb))
                });
                return;
            }
            compared += 1;
        } else {
            let hw = |e: &Expect| match e {
                Expect::Approx { hw, .. } => Some(*hw),
                Expect::Exact(_) => Some(0.0),
                Expect::OneOf(alts) => alts.iter().filter_map(|x| if let Expect::Approx { hw, .. } = x { Some(*hw) } else { None }).fold(None, |m: Option<f64>, h| Some(m.map_or(h, |mm| mm.max(h)))),
                _ => None,
            };
            match (hw(&ea[i]), hw(&eb[i])) {
                (Some(x), Some(y)) => {
                    let tol = x + y + 1e-300;
                    // floor-zone alternatives (exact 0 vs tiny) are covered by the half-widths
                    if (a - b).abs() > tol && !(matches!(ea[i], Expect::OneOf(_)) || matches!(eb[i], Expect::OneOf(_))) {
                        ctx.violation(&format!("{name}/history_value"), || {
                            format!("position {i}: {a:?} after history A but {b:?} after history B, allowed rounding difference {tol:e}; A: {} B: {}",
                                desc(rf, be, &enc_f64(&xa), &enc_f64(&ya), w, mp), fmt_series(&xb))
                        });
                        return;
                    }
                    ctx.maximum(&format!("history_diff_over_bound.{name}"), (a - b).abs() / tol, || format!("hl={hl} sl={sl} w={w} i={i}"));
                    compared += 1;
                },
                _ => ctx.count("history.ill_conditioned"),
            }
        }
    }
    if compared > 0 {
        ctx.count(&format!("history_ok.{name}"));
        ctx.sample(|| format!("history pair: {} vs history B {} -> {compared} outputs with the window inside the common suffix agree", desc(rf, be, &enc_f64(&xa), &enc_f64(&ya), w, mp), fmt_series(&xb)));
        ctx.count_n("history_positions", compared);
        ctx.distinct(&format!("hist|{name}|{be:?}|{hl}|{sl}|{w}|{mp:?}|{exact}"));
    }
}

fn main() {
    let mut ctx = Ctx::from_args("C06");
    let fns = all_fns_no_fdiff();
    // ---- (i) prefix law: structured ------------------------------------------------------
    let nmax = ctx.budget(9, 14);
    for len in 1..=nmax {
        for w in 1..=len + 2 {
            for mpk in 0..3 {
                if let Some(mut rng) = ctx.sweep_case() {
                    let mp = match mpk {
                        0 => None,
                        1 => Some(rng.range_usize(0, w)),
                        _ => Some(rng.range_usize(0, w.min(3))),
                    };
                    for &rf in &fns {
                        let (x, _, _) = if rf.is_plain() {
                            let c = *rng.pick(&ALL_CLASSES);
                            (series(&mut rng, c, NullPat::NoNulls, len), c, NullPat::NoNulls)
                        } else {
                            random_series(&mut rng, &ALL_CLASSES, len)
                        };
                        let (y, _, _) = random_series(&mut rng, &ALL_CLASSES, len);
                        prefix_roll(&mut ctx, &mut rng, rf, &enc_f64(&x), &enc_f64(&y), w, mp);
                    }
                    let (x, _, _) = random_series(&mut rng, &ALL_CLASSES, len);
                    prefix_map(&mut ctx, &mut rng, &enc_f64(&x));
                }
            }
        }
    }
    // ---- (i) prefix law: random, longer ----------------------------------------------------
    let nr = ctx.cbudget(40, 800);
    for _ in 0..nr {
        if let Some(mut rng) = ctx.random_case() {
            let len = rng.range_usize(10, 48);
            let w = rng.range_usize(1, len + 2);
            let mp = if rng.chance(0.2) { None } else { Some(rng.range_usize(0, w)) };
            for &rf in &fns {
                let pat = if rf.is_plain() { NullPat::NoNulls } else { *rng.pick(&NULL_PATTERNS) };
                let c = *rng.pick(&ALL_CLASSES);
                let x = series(&mut rng, c, pat, len);
                let (y, _, _) = random_series(&mut rng, &ALL_CLASSES, len);
                prefix_roll(&mut ctx, &mut rng, rf, &enc_f64(&x), &enc_f64(&y), w, mp);
            }
            let (x, _, _) = random_series(&mut rng, &ALL_CLASSES, len);
            prefix_map(&mut ctx, &mut rng, &enc_f64(&x));
        }
    }
    // ---- (ii) pre-window histories -----------------------------------------------------------
    let nh = ctx.cbudget(300, 6000);
    for _ in 0..nh {
        if let Some(mut rng) = ctx.random_case() {
            for &rf in &fns {
                history_pair(&mut ctx, &mut rng, rf);
            }
        }
    }
    let _ = CollectTrustedToVec::collect_trusted_to_vec(vec![0u8].into_iter());
    std::process::exit(ctx.finish());
}
