//! C07 — results are independent of input backend, output container and out-buffer path;
//! every container's accessors describe the same logical sequence.
use std::collections::VecDeque;
use std::sync::Arc;

/// cap on items taken from a library iterator: a runaway iterator becomes a length violation, not an OOM
const CAP: usize = 200_000;

use tevec::export::ndarray::{Array1, ArrayView1, ArrayViewMut1};
use tevec::prelude::{
    AggValidBasic, Cast, GetLen, IsNone, MapValidFinal, MapValidVec, Number, QuantileMethod, TIter, Vec1, Vec1View,
    VecAggValidExt, WinsorizeMethod,
};
use tvmon::backends::*;
use tvmon::ctx::{Ctx, catch, is_marked_panic, panic_key};
use tvmon::model::Obs;
use tvmon::rng::Rng;
use tvmon::rollreg::*;
use tvmon::spy::{SpyOut, SpyVec, SpyVecFast};
use tvmon::wl::*;

type Res = Result<Vec<Obs>, String>;

struct Case<'a> {
    x: &'a Series,
    y: &'a Series,
    w: usize,
    mp: Option<usize>,
}

impl Case<'_> {
    fn desc(&self, rf: Rf, label: &str, path: Path) -> String {
        format!("{} [{label}] w={} min_periods={:?} path={path:?} x={} y={}", rf.name(), self.w, self.mp, fmt_series(self.x), if rf.is_pair() { fmt_series(self.y) } else { "-".into() })
    }
}

fn same(a: &[Obs], b: &[Obs]) -> Option<usize> {
    if a.len() != b.len() {
        return Some(usize::MAX);
    }
    for i in 0..a.len() {
        let eq = (a[i].null && b[i].null) || (!a[i].null && !b[i].null && (a[i].v.to_bits() == b[i].v.to_bits() || (a[i].v.is_nan() && b[i].v.is_nan())));
        if !eq {
            return Some(i);
        }
    }
    None
}

/// compare one cell with the reference cell
fn cmp_cell(ctx: &mut Ctx, cs: &Case, rf: Rf, label: &str, path: Path, got: Res, reference: &Res) {
    ctx.evaluations += 1;
    let name = rf.name();
    match (got, reference) {
        (Ok(g), Ok(r)) => {
            ctx.events += g.len() as u64;
            match same(&g, r) {
                None => {
                    ctx.count("cells_equal");
                    if g.iter().any(|o| !o.null) {
                        ctx.distinct(&format!("{name}|{label}|{path:?}|{}|{}|{:?}", cs.x.len().min(20), cs.w.min(24), cs.mp.map(|m| m.min(24))));
                        ctx.count(&format!("cell.{label}"));
                    }
                },
                Some(i) => {
                    let (gv, rv) = if i == usize::MAX { ("len".to_string(), format!("{} vs {}", g.len(), r.len())) } else { (format!("{:?}", g[i]), format!("{:?}", r[i])) };
                    ctx.violation(&format!("{name}/cell_differs/{label}"), || {
                        format!("position {i}: cell gives {gv}, reference cell (vec->vec, returned) gives {rv}; {}", cs.desc(rf, label, path))
                    });
                },
            }
        },
        (Err(p), Ok(_)) => {
            if is_marked_panic(&p) {
                ctx.violation(&format!("{name}/memory/{}", panic_key(&p)), || format!("{p}; {}", cs.desc(rf, label, path)));
            } else {
                ctx.count("cells_panicked");
                ctx.violation(&format!("cell_panics/{label}/{}", panic_key(&p)), || {
                    format!("cell panics ({p}) while the reference cell returns a value; {}", cs.desc(rf, label, path))
                });
            }
        },
        (Ok(_), Err(_)) | (Err(_), Err(_)) => {
            // the reference itself panics: judged by the value properties, not here
            ctx.count("reference_panics");
        },
    }
}

fn obs_of<O: Vec1<U>, U: OutElem>(o: O) -> Vec<Obs> {
    o.titer().map(|u| u.obs()).collect()
}

/// one (input, output) cell for every null-aware single-series function, both paths
macro_rules! cell_valid1 {
    ($ctx:expr, $cs:expr, $refs:expr, $v:expr, $V:ty, $T:ty, $O:ty, $U:ty, $label:expr, $paths:expr) => {{
        for (k, rf) in valid1_fns().into_iter().enumerate() {
            for &path in $paths {
                if $ctx.is_sanitizer_mode() && !$ctx.every(5) {
                    continue;
                }
                let got = catch(|| obs_of::<$O, $U>(call_valid1::<$V, $T, $O, $U>(rf, $v, $cs.w, $cs.mp, path)));
                cmp_cell($ctx, $cs, rf, $label, path, got, &$refs.valid1[k]);
            }
        }
    }};
}
macro_rules! cell_plain1 {
    ($ctx:expr, $cs:expr, $refs:expr, $v:expr, $V:ty, $T:ty, $O:ty, $U:ty, $label:expr, $paths:expr) => {{
        if let Some(pl) = $refs.plain.as_ref() {
            for (k, rf) in PLAIN_FNS.into_iter().enumerate() {
                for &path in $paths {
                    if $ctx.is_sanitizer_mode() && !$ctx.every(5) {
                        continue;
                    }
                    let got = catch(|| obs_of::<$O, $U>(call_plain1::<$V, $T, $O, $U>(rf, $v, $cs.w, $cs.mp, path)));
                    cmp_cell($ctx, $cs, rf, $label, path, got, &pl[k]);
                }
            }
        }
    }};
}
macro_rules! cell_pair {
    ($ctx:expr, $cs:expr, $refs:expr, $v:expr, $V:ty, $T:ty, $v2:expr, $V2:ty, $T2:ty, $O:ty, $U:ty, $label:expr, $paths:expr) => {{
        for (k, rf) in PAIR_FNS.into_iter().enumerate() {
            for &path in $paths {
                if path == Path::Buf && !rf.has_buf_path() {
                    continue;
                }
                if $ctx.is_sanitizer_mode() && !$ctx.every(5) {
                    continue;
                }
                let got = catch(|| obs_of::<$O, $U>(call_valid2::<$V, $T, $V2, $T2, $O, $U>(rf, $v, $v2, $cs.w, $cs.mp, path)));
                cmp_cell($ctx, $cs, rf, $label, path, got, &$refs.pair[k]);
            }
        }
    }};
}

/// all output containers for one input (element type f64 or Option<f64>)
macro_rules! row_valid {
    ($ctx:expr, $cs:expr, $refs:expr, $v:expr, $V:ty, $T:ty, $name:expr) => {{
        let both = [Path::Ret, Path::Buf];
        cell_valid1!($ctx, $cs, $refs, $v, $V, $T, Vec<f64>, f64, concat!($name, "->vec"), &both);
        cell_valid1!($ctx, $cs, $refs, $v, $V, $T, VecDeque<f64>, f64, concat!($name, "->deque"), &both);
        cell_valid1!($ctx, $cs, $refs, $v, $V, $T, Array1<f64>, f64, concat!($name, "->array1"), &both);
        cell_valid1!($ctx, $cs, $refs, $v, $V, $T, SpyOut<f64>, f64, concat!($name, "->spyout"), &both);
        cell_valid1!($ctx, $cs, $refs, $v, $V, $T, Vec<Option<f64>>, Option<f64>, concat!($name, "->vec<opt>"), &both);
    }};
}
macro_rules! row_plain {
    ($ctx:expr, $cs:expr, $refs:expr, $v:expr, $V:ty, $name:expr) => {{
        let both = [Path::Ret, Path::Buf];
        cell_plain1!($ctx, $cs, $refs, $v, $V, f64, Vec<f64>, f64, concat!($name, "->vec"), &both);
        cell_plain1!($ctx, $cs, $refs, $v, $V, f64, VecDeque<f64>, f64, concat!($name, "->deque"), &both);
        cell_plain1!($ctx, $cs, $refs, $v, $V, f64, Array1<f64>, f64, concat!($name, "->array1"), &both);
        cell_plain1!($ctx, $cs, $refs, $v, $V, f64, SpyOut<f64>, f64, concat!($name, "->spyout"), &both);
    }};
}
macro_rules! row_pair {
    ($ctx:expr, $cs:expr, $refs:expr, $v:expr, $V:ty, $T:ty, $v2:expr, $V2:ty, $T2:ty, $name:expr) => {{
        let both = [Path::Ret, Path::Buf];
        cell_pair!($ctx, $cs, $refs, $v, $V, $T, $v2, $V2, $T2, Vec<f64>, f64, concat!($name, "->vec"), &both);
        cell_pair!($ctx, $cs, $refs, $v, $V, $T, $v2, $V2, $T2, Array1<f64>, f64, concat!($name, "->array1"), &both);
        cell_pair!($ctx, $cs, $refs, $v, $V, $T, $v2, $V2, $T2, VecDeque<f64>, f64, concat!($name, "->deque"), &both);
        cell_pair!($ctx, $cs, $refs, $v, $V, $T, $v2, $V2, $T2, SpyOut<f64>, f64, concat!($name, "->spyout"), &both);
    }};
}

struct Refs {
    valid1: Vec<Res>,
    plain: Option<Vec<Res>>,
    pair: Vec<Res>,
}

fn references(cs: &Case) -> Refs {
    let xf = enc_f64(cs.x);
    let yf = enc_f64(cs.y);
    let valid1 = valid1_fns()
        .into_iter()
        .map(|rf| catch(|| obs_of::<Vec<f64>, f64>(call_valid1::<Vec<f64>, f64, Vec<f64>, f64>(rf, &xf, cs.w, cs.mp, Path::Ret))))
        .collect();
    let plain = if has_nulls(cs.x) {
        None
    } else {
        Some(
            PLAIN_FNS
                .into_iter()
                .map(|rf| catch(|| obs_of::<Vec<f64>, f64>(call_plain1::<Vec<f64>, f64, Vec<f64>, f64>(rf, &xf, cs.w, cs.mp, Path::Ret))))
                .collect(),
        )
    };
    let pair = PAIR_FNS
        .into_iter()
        .map(|rf| catch(|| obs_of::<Vec<f64>, f64>(call_valid2::<Vec<f64>, f64, Vec<f64>, f64, Vec<f64>, f64>(rf, &xf, &yf, cs.w, cs.mp, Path::Ret))))
        .collect();
    Refs { valid1, plain, pair }
}

fn rolling_matrix(ctx: &mut Ctx, rng: &mut Rng, cs: &Case) {
    fdiff_cells(ctx, rng, cs);
    let refs = references(cs);
    let xf = enc_f64(cs.x);
    let yf = enc_f64(cs.y);
    let xo = enc_opt_f64(cs.x);
    let yo = enc_opt_f64(cs.y);
    let len = xf.len();

    row_valid!(ctx, cs, refs, &xf, Vec<f64>, f64, "vec");
    row_plain!(ctx, cs, refs, &xf, Vec<f64>, "vec");
    row_pair!(ctx, cs, refs, &xf, Vec<f64>, f64, &yf, Vec<f64>, f64, "vec,vec");
    {
        let (dx, dy) = (deque_of(&xf, rng.below(len + 1)), deque_of(&yf, rng.below(len + 1)));
        ctx.count(if deque_is_wrapped(&dx) { "deque_wrapped" } else { "deque_contiguous" });
        row_valid!(ctx, cs, refs, &dx, VecDeque<f64>, f64, "deque");
        row_plain!(ctx, cs, refs, &dx, VecDeque<f64>, "deque");
        row_pair!(ctx, cs, refs, &dx, VecDeque<f64>, f64, &dy, VecDeque<f64>, f64, "deque,deque");
        row_pair!(ctx, cs, refs, &xf, Vec<f64>, f64, &dy, VecDeque<f64>, f64, "vec,deque");
    }
    {
        let (ax, ay) = (nd_owned(&xf), nd_owned(&yf));
        row_valid!(ctx, cs, refs, &ax, Array1<f64>, f64, "array1");
        row_plain!(ctx, cs, refs, &ax, Array1<f64>, "array1");
        row_pair!(ctx, cs, refs, &ax, Array1<f64>, f64, &ay, Array1<f64>, f64, "array1,array1");
        let step = *rng.pick(&[1isize, 2, 3, -1, -2]);
        ctx.count(&format!("ndview.step{step}"));
        let (bx, by) = (nd_base(&xf, step, 31337.5), nd_base(&yf, step, -31337.5));
        let (vx, vy) = (nd_view(&bx, step), nd_view(&by, step));
        row_valid!(ctx, cs, refs, &vx, ArrayView1<f64>, f64, "arrayview1");
        row_plain!(ctx, cs, refs, &vx, ArrayView1<f64>, "arrayview1");
        row_pair!(ctx, cs, refs, &vx, ArrayView1<f64>, f64, &vy, ArrayView1<f64>, f64, "arrayview1,arrayview1");
        let mut bm = nd_base(&xf, step, 4242.0);
        let vm = nd_view_mut(&mut bm, step);
        row_valid!(ctx, cs, refs, &vm, ArrayViewMut1<f64>, f64, "arrayviewmut1");
    }
    {
        let (ax, ay) = (arc_vec(&xf), arc_vec(&yf));
        row_valid!(ctx, cs, refs, &ax, Arc<Vec<f64>>, f64, "arc<vec>");
        row_plain!(ctx, cs, refs, &ax, Arc<Vec<f64>>, "arc<vec>");
        row_pair!(ctx, cs, refs, &ax, Arc<Vec<f64>>, f64, &ay, Arc<Vec<f64>>, f64, "arc<vec>,arc<vec>");
        let nx = arc_nd(&xf);
        row_valid!(ctx, cs, refs, &nx, Arc<Array1<f64>>, f64, "arc<array1>");
    }
    {
        row_valid!(ctx, cs, refs, &xo, Vec<Option<f64>>, Option<f64>, "vec<opt>");
        row_pair!(ctx, cs, refs, &xo, Vec<Option<f64>>, Option<f64>, &yo, Vec<Option<f64>>, Option<f64>, "vec<opt>,vec<opt>");
        let (ox, oy) = (xf.opt(), yf.opt());
        row_valid!(ctx, cs, refs, &ox, _, Option<f64>, "optiter(vec)");
        row_pair!(ctx, cs, refs, &ox, _, Option<f64>, &oy, _, Option<f64>, "optiter,optiter");
        let ax = nd_owned(&xf);
        let oa = ax.opt();
        row_valid!(ctx, cs, refs, &oa, _, Option<f64>, "optiter(array1)");
    }
    {
        let sx = SpyVec::new(xf.clone());
        row_valid!(ctx, cs, refs, &sx, SpyVec<f64>, f64, "spy");
        let fx = SpyVecFast::new(xf.clone());
        row_valid!(ctx, cs, refs, &fx, SpyVecFast<f64>, f64, "spyfast");
    }
    match len {
        0 => {
            let a: [f64; 0] = [];
            row_valid!(ctx, cs, refs, &a, [f64; 0], f64, "[f64;0]");
        },
        3 => {
            let a: [f64; 3] = std::array::from_fn(|i| xf[i]);
            row_valid!(ctx, cs, refs, &a, [f64; 3], f64, "[f64;3]");
            row_plain!(ctx, cs, refs, &a, [f64; 3], "[f64;3]");
        },
        8 => {
            let a: [f64; 8] = std::array::from_fn(|i| xf[i]);
            row_valid!(ctx, cs, refs, &a, [f64; 8], f64, "[f64;8]");
        },
        _ => {},
    }
    #[cfg(feature = "polars")]
    {
        use tevec::export::polars::prelude::Float64Chunked;
        let (px, py) = (pl::f64_chunked(&xo, rng.range_usize(1, 3)), pl::f64_chunked(&yo, rng.range_usize(1, 3)));
        ctx.count(&format!("polars.chunks{}", pl::n_chunks(&px)));
        row_valid!(ctx, cs, refs, &px, Float64Chunked, Option<f64>, "polars");
        row_pair!(ctx, cs, refs, &px, Float64Chunked, Option<f64>, &py, Float64Chunked, Option<f64>, "polars,polars");
        // polars as the output container (it only supports the collecting, returned path)
        let ret = [Path::Ret];
        cell_valid1!(ctx, cs, refs, &px, Float64Chunked, Option<f64>, Float64Chunked, Option<f64>, "polars->polars", &ret);
        let dq = deque_of(&xf, 0);
        cell_valid1!(ctx, cs, refs, &dq, VecDeque<f64>, f64, Float64Chunked, Option<f64>, "deque->polars", &ret);
        // fast-path inputs allocate `O::uninit` and `uset` into it
        cell_valid1!(ctx, cs, refs, &xf, Vec<f64>, f64, Float64Chunked, Option<f64>, "vec->polars", &ret);
        let ax = nd_owned(&xf);
        cell_valid1!(ctx, cs, refs, &ax, Array1<f64>, f64, Float64Chunked, Option<f64>, "array1->polars", &ret);
    }
}

/// fractional differencing goes through the window-slice driver (rolling_custom / uslice): same
/// matrix idea, for the backends whose slice output can be iterated
#[cfg(feature = "fdiff")]
fn fdiff_cells(ctx: &mut Ctx, rng: &mut Rng, cs: &Case) {
    if ctx.is_sanitizer_mode() {
        return; // the C++ binomial cannot be crossed by Miri
    }
    let xf = enc_f64(cs.x);
    let d = *rng.pick(&[0.3, 0.5, 1.0, 1.5]);
    let fns: Vec<Rf> = if has_nulls(cs.x) { vec![Rf::VFdiff(d)] } else { vec![Rf::VFdiff(d), Rf::Fdiff(d)] };
    for rf in fns {
        let reference: Res = catch(|| obs_of::<Vec<f64>, f64>(call_fdiff::<Vec<f64>, f64, Vec<f64>, f64>(rf, &xf, cs.w, cs.mp, Path::Ret)));
        macro_rules! cell {
            ($v:expr, $V:ty, $O:ty, $label:expr) => {{
                for path in [Path::Ret, Path::Buf] {
                    let got = catch(|| obs_of::<$O, f64>(call_fdiff::<$V, f64, $O, f64>(rf, $v, cs.w, cs.mp, path)));
                    cmp_cell(ctx, cs, rf, $label, path, got, &reference);
                }
            }};
        }
        cell!(&xf, Vec<f64>, Array1<f64>, "vec->array1");
        cell!(&xf, Vec<f64>, VecDeque<f64>, "vec->deque");
        let ax = nd_owned(&xf);
        cell!(&ax, Array1<f64>, Vec<f64>, "array1->vec");
        cell!(&ax, Array1<f64>, Array1<f64>, "array1->array1");
        let av = arc_vec(&xf);
        cell!(&av, Arc<Vec<f64>>, Vec<f64>, "arc<vec>->vec");
        let an = arc_nd(&xf);
        cell!(&an, Arc<Array1<f64>>, Vec<f64>, "arc<array1>->vec");
        // strided / reversed views: the slice bound needs a 'static view, so the base is leaked (a few bytes)
        let step = *rng.pick(&[2isize, 3, -1, -2]);
        let base: &'static Array1<f64> = Box::leak(Box::new(nd_base(&xf, step, 8080.5)));
        let vw = nd_view(base, step);
        cell!(&vw, ArrayView1<'static, f64>, Vec<f64>, "arrayview1(strided)->vec");
        cell!(&vw, ArrayView1<'static, f64>, SpyOut<f64>, "arrayview1(strided)->spyout");
        ctx.count("fdiff_cells");
    }
}
#[cfg(not(feature = "fdiff"))]
fn fdiff_cells(_: &mut Ctx, _: &mut Rng, _: &Case) {}

// ---------------------------------------------------------------------------------------
// view-based map functions and aggregations on every backend
// ---------------------------------------------------------------------------------------

#[derive(Clone, Debug, PartialEq)]
struct MapOut {
    name: &'static str,
    vals: Result<Vec<u64>, String>,
}

fn f64bits(v: f64) -> u64 {
    if v.is_nan() { 0x7ff8_0000_0000_0000 } else { v.to_bits() }
}

/// every view-based map / aggregation result of one container, as comparable bit vectors
fn map_agg_results<V>(v: &V, n: i32, k: usize, q: f64) -> Vec<MapOut>
where
    V: Vec1View<f64>,
{
    let mut out = Vec::new();
    let mut push = |name: &'static str, r: Result<Vec<u64>, String>| out.push(MapOut { name, vals: r });
    push("vdiff", catch(|| v.vdiff(n, None).take(CAP).map(f64bits).collect()));
    push("vdiff_fill", catch(|| v.vdiff(n, Some(1.5)).map(f64bits).collect()));
    push("vpct_change", catch(|| v.vpct_change(n).take(CAP).map(f64bits).collect()));
    push("vrank", catch(|| v.vrank::<Vec<f64>, f64>(false, false).into_iter().map(f64bits).collect()));
    push("vrank_pct_rev", catch(|| v.vrank::<Vec<f64>, f64>(true, true).into_iter().map(f64bits).collect()));
    push("vpartition_sorted", catch(|| v.vpartition(k, true, false).map(f64bits).collect()));
    push("varg_partition_sorted_rev", catch(|| v.varg_partition(k, true, true).map(|i| i as i64 as u64).collect()));
    push("vquantile", catch(|| vec![f64bits(v.vquantile(q, QuantileMethod::Linear).unwrap_or(f64::NEG_INFINITY))]));
    push("vmedian", catch(|| vec![f64bits(v.vmedian())]));
    push("winsorize_q", catch(|| v.winsorize(WinsorizeMethod::Quantile, Some(0.1)).map(|it| it.map(f64bits).collect()).unwrap_or_default()));
    push("winsorize_sigma", catch(|| v.winsorize(WinsorizeMethod::Sigma, Some(1.0)).map(|it| it.map(f64bits).collect()).unwrap_or_default()));
    push("winsorize_median", catch(|| v.winsorize(WinsorizeMethod::Median, Some(1.0)).map(|it| it.map(f64bits).collect()).unwrap_or_default()));
    // aggregations through titer()
    push("count_valid", catch(|| vec![v.titer().count_valid() as u64]));
    push("vsum", catch(|| vec![f64bits(v.titer().vsum().unwrap_or(f64::NAN))]));
    push("vmean", catch(|| vec![f64bits(v.titer().vmean())]));
    push("vvar", catch(|| vec![f64bits(v.titer().vvar(1))]));
    push("vskew", catch(|| vec![f64bits(v.titer().vskew(1))]));
    push("vmin", catch(|| vec![f64bits(v.titer().vmin().unwrap_or(f64::NAN))]));
    push("vmax", catch(|| vec![f64bits(v.titer().vmax().unwrap_or(f64::NAN))]));
    push("vargmax", catch(|| vec![v.titer().vargmax().map(|i| i as u64).unwrap_or(u64::MAX)]));
    push("vfirst", catch(|| vec![f64bits(v.titer().vfirst().unwrap_or(f64::NAN))]));
    push("vlast", catch(|| vec![f64bits(v.titer().vlast().unwrap_or(f64::NAN))]));
    out
}

fn cmp_map(ctx: &mut Ctx, label: &str, got: Vec<MapOut>, reference: &[MapOut], x: &Series, n: i32, k: usize, q: f64) {
    for (g, r) in got.iter().zip(reference) {
        ctx.evaluations += 1;
        match (&g.vals, &r.vals) {
            (Ok(a), Ok(b)) => {
                ctx.events += a.len() as u64;
                if a != b {
                    ctx.violation(&format!("map/{}/cell_differs/{label}", g.name), || {
                        format!("{} on [{label}] differs from the Vec reference: {:?} vs {:?}; n={n} k={k} q={q} x={}", g.name, a.iter().map(|b| f64::from_bits(*b)).collect::<Vec<_>>(), b.iter().map(|b| f64::from_bits(*b)).collect::<Vec<_>>(), fmt_series(x))
                    });
                } else {
                    ctx.count("map_cells_equal");
                    ctx.distinct(&format!("map|{}|{label}|{}|{n}|{k}", g.name, x.len().min(20)));
                }
            },
            (Err(p), Ok(_)) => {
                if is_marked_panic(p) {
                    ctx.violation(&format!("map/{}/memory/{}", g.name, panic_key(p)), || format!("{p}; [{label}] n={n} k={k} x={}", fmt_series(x)));
                } else {
                    ctx.violation(&format!("map/{}/cell_panics/{label}", g.name), || format!("{p}; [{label}] n={n} k={k} q={q} x={}", fmt_series(x)));
                }
            },
            _ => ctx.count("reference_panics"),
        }
    }
}

fn map_matrix(ctx: &mut Ctx, rng: &mut Rng, x: &Series) {
    let xf = enc_f64(x);
    let len = xf.len();
    let n = rng.range_i64(-(len as i64) - 2, len as i64 + 2) as i32;
    let k = rng.range_usize(0, len + 1);
    let q = *rng.pick(&[0.0, 0.1, 0.25, 0.5, 0.75, 1.0]);
    let reference = map_agg_results(&xf, n, k, q);
    let dq = deque_of(&xf, rng.below(len + 1));
    cmp_map(ctx, "deque", map_agg_results(&dq, n, k, q), &reference, x, n, k, q);
    let a = nd_owned(&xf);
    cmp_map(ctx, "array1", map_agg_results(&a, n, k, q), &reference, x, n, k, q);
    let step = *rng.pick(&[2isize, 3, -1, -2]);
    let b = nd_base(&xf, step, 999.0);
    let v = nd_view(&b, step);
    cmp_map(ctx, "arrayview1", map_agg_results(&v, n, k, q), &reference, x, n, k, q);
    let av = arc_vec(&xf);
    cmp_map(ctx, "arc<vec>", map_agg_results(&av, n, k, q), &reference, x, n, k, q);
    let an = arc_nd(&xf);
    cmp_map(ctx, "arc<array1>", map_agg_results(&an, n, k, q), &reference, x, n, k, q);
    let sp = SpyVec::new(xf.clone());
    cmp_map(ctx, "spy", map_agg_results(&sp, n, k, q), &reference, x, n, k, q);
    if len == 5 {
        let arr: [f64; 5] = std::array::from_fn(|i| xf[i]);
        cmp_map(ctx, "[f64;5]", map_agg_results(&arr, n, k, q), &reference, x, n, k, q);
    }
}

// ---------------------------------------------------------------------------------------
// accessor coherence
// ---------------------------------------------------------------------------------------

fn accessors<V, T>(ctx: &mut Ctx, v: &V, logical: &[T], label: &str, slice_to_vec: impl Fn(&V, usize, usize) -> Result<Vec<T>, String>)
where
    V: Vec1View<T>,
    T: Clone + PartialEq + std::fmt::Debug + IsNone<Inner = f64> + Cast<f64>,
{
    let len = logical.len();
    let eq = |a: &T, b: &T| a == b || format!("{a:?}") == format!("{b:?}"); // NaN == NaN by debug form
    let mut bad = |ctx: &mut Ctx, what: &str, detail: String| {
        ctx.violation(&format!("accessor/{what}/{label}"), || format!("[{label}] {detail}; logical sequence {:?}", logical));
    };
    ctx.evaluations += 1;
    if GetLen::len(v) != len {
        bad(ctx, "len", format!("len() = {} expected {len}", GetLen::len(v)));
        return;
    }
    let it: Vec<T> = v.titer().collect();
    if it.len() != len || !it.iter().zip(logical).all(|(a, b)| eq(a, b)) {
        bad(ctx, "titer", format!("titer() yields {it:?}"));
    }
    let mut rv: Vec<T> = v.titer().rev().collect();
    rv.reverse();
    if rv.len() != len || !rv.iter().zip(logical).all(|(a, b)| eq(a, b)) {
        bad(ctx, "titer_rev", format!("titer().rev() yields (re-reversed) {rv:?}"));
    }
    for i in 0..len + 2 {
        ctx.events += 1;
        match v.get(i) {
            Ok(g) if i < len => {
                if !eq(&g, &logical[i]) {
                    bad(ctx, "get", format!("get({i}) = {g:?}"));
                }
                let u = unsafe { v.uget(i) };
                if !eq(&u, &logical[i]) {
                    bad(ctx, "uget", format!("uget({i}) = {u:?}"));
                }
            },
            Ok(g) => bad(ctx, "get_oob", format!("get({i}) = Ok({g:?}) beyond the length {len}")),
            Err(_) if i >= len => {},
            Err(e) => bad(ctx, "get", format!("get({i}) = Err({e})")),
        }
    }
    for a in 0..=len {
        for b in a..=len {
            ctx.events += 1;
            match catch(|| slice_to_vec(v, a, b)) {
                Ok(Ok(s)) => {
                    if s.len() != b - a || !s.iter().zip(&logical[a..b]).all(|(p, q)| eq(p, q)) {
                        bad(ctx, "slice", format!("slice({a},{b}) = {s:?}"));
                    }
                },
                Ok(Err(e)) => bad(ctx, "slice", format!("slice({a},{b}) = Err({e})")),
                Err(p) => bad(ctx, "slice_panic", format!("slice({a},{b}) panics: {p}")),
            }
        }
    }
    // the null-aware accessors and the casting iterators agree with the logical sequence
    let want_opt: Vec<Option<u64>> = logical.iter().map(|t| t.clone().to_opt().map(f64::to_bits)).collect();
    for i in 0..len + 2 {
        ctx.events += 1;
        let g = v.vget(i).map(f64::to_bits);
        let w = if i < len { want_opt[i] } else { None };
        if g != w {
            bad(ctx, "vget", format!("vget({i}) = {:?}", v.vget(i)));
        }
        if i < len && unsafe { v.uvget(i) }.map(f64::to_bits) != w {
            bad(ctx, "uvget", format!("uvget({i}) = {:?}", unsafe { v.uvget(i) }));
        }
    }
    let oi: Vec<Option<u64>> = v.to_opt_iter().map(|o| o.map(f64::to_bits)).collect();
    if oi != want_opt {
        bad(ctx, "to_opt_iter", format!("to_opt_iter() yields {:?}", v.to_opt_iter().collect::<Vec<_>>()));
    }
    let oc: Vec<Option<u32>> = v.opt_iter_cast::<f32>().map(|o| o.map(f32::to_bits)).collect();
    let wc: Vec<Option<u32>> = logical.iter().map(|t| t.clone().to_opt().map(|x| (x as f32).to_bits())).collect();
    if oc != wc {
        bad(ctx, "opt_iter_cast", format!("opt_iter_cast::<f32>() yields {:?}", v.opt_iter_cast::<f32>().collect::<Vec<_>>()));
    }
    let ic: Vec<Option<u64>> = v.iter_cast::<f64>().map(|x| if x.is_nan() { None } else { Some(x.to_bits()) }).collect();
    if ic != want_opt {
        bad(ctx, "iter_cast", format!("iter_cast::<f64>() yields {:?}", v.iter_cast::<f64>().collect::<Vec<_>>()));
    }
    if let Some(s) = v.try_as_slice() {
        ctx.count("try_as_slice_offered");
        if s.len() != len || !s.iter().zip(logical).all(|(a, b)| eq(a, b)) {
            bad(ctx, "try_as_slice", format!("try_as_slice() = {s:?}"));
        }
    } else {
        ctx.count("try_as_slice_none");
    }
    ctx.count(&format!("accessors.{label}"));
    ctx.distinct(&format!("acc|{label}|{len}"));
}

fn accessor_suite(ctx: &mut Ctx, rng: &mut Rng, x: &Series) {
    let xf = enc_f64(x);
    let len = xf.len();
    accessors(ctx, &xf, &xf, "vec", |v, a, b| v.slice(a, b).map(|s| s.to_vec()).map_err(|e| e.to_string()));
    // every rotation of the ring buffer
    for rot in 0..=len {
        let dq = deque_of(&xf, rot);
        ctx.count(if deque_is_wrapped(&dq) { "deque_wrapped" } else { "deque_contiguous" });
        accessors(ctx, &dq, &xf, "deque", |v, a, b| v.slice(a, b).map(|s| s.cloned().collect()).map_err(|e| e.to_string()));
    }
    let a = nd_owned(&xf);
    accessors(ctx, &a, &xf, "array1", |v, a, b| Vec1View::slice(v, a, b).map(|s| s.to_vec()).map_err(|e| e.to_string()));
    for step in [1isize, 2, 3, -1, -2] {
        let base = nd_base(&xf, step, 123456.0);
        let v = nd_view(&base, step);
        ctx.count(&format!("ndview.step{step}"));
        let label: &'static str = match step {
            1 => "arrayview1(step1)",
            2 => "arrayview1(step2)",
            3 => "arrayview1(step3)",
            -1 => "arrayview1(step-1)",
            _ => "arrayview1(step-2)",
        };
        accessors(ctx, &v, &xf, label, |v, a, b| Vec1View::slice(v, a, b).map(|s| s.to_vec()).map_err(|e| e.to_string()));
        let mut bm = nd_base(&xf, step, 654321.0);
        let vm = nd_view_mut(&mut bm, step);
        accessors(ctx, &vm, &xf, "arrayviewmut1", |v, a, b| Vec1View::slice(v, a, b).map(|s| s.to_vec()).map_err(|e| e.to_string()));
    }
    let av = arc_vec(&xf);
    accessors(ctx, &av, &xf, "arc<vec>", |v, a, b| v.slice(a, b).map(|s| s.to_vec()).map_err(|e| e.to_string()));
    let an = arc_nd(&xf);
    accessors(ctx, &an, &xf, "arc<array1>", |v, a, b| v.slice(a, b).map(|s| s.to_vec()).map_err(|e| e.to_string()));
    let xo = enc_opt_f64(x);
    {
        let oi = xf.opt();
        accessors(ctx, &oi, &xo, "optiter(vec)", |v, a, b| v.slice(a, b).map_err(|e| e.to_string()));
        let dq = deque_of(&xf, rng.below(len + 1));
        let _ = dq; // OptIter over a deque has no TIter slice output; covered through the matrix
    }
    if len == 4 {
        let arr: [f64; 4] = std::array::from_fn(|i| xf[i]);
        accessors(ctx, &arr, &xf, "[f64;4]", |v, a, b| v.slice(a, b).map(|s| s.to_vec()).map_err(|e| e.to_string()));
    }
    #[cfg(feature = "polars")]
    {
        for nch in 1..=3 {
            let ca = pl::f64_chunked(&xo, nch);
            ctx.count(&format!("polars.chunks{}", pl::n_chunks(&ca)));
            accessors(ctx, &ca, &xo, "polars", |v, a, b| Vec1View::slice(v, a, b).map(|s| s.titer().collect()).map_err(|e| e.to_string()));
        }
    }
}

fn main() {
    let mut ctx = Ctx::from_args("C07");
    let san = ctx.is_sanitizer_mode();
    // ---- rolling matrix -----------------------------------------------------------------
    let nmax = if san { 0 } else { ctx.budget(7, 10) };
    for len in 0..=nmax {
        for w in 1..=len + 2 {
            for rep in 0..3 {
                if let Some(mut rng) = ctx.sweep_case() {
                    // caller-supplied VecDeque buffers: half of the cases with a rotated (physically wrapped) ring buffer
                    tvmon::rollreg::BUF_ROT.with(|r| r.set(if rng.chance(0.5) { 0 } else { 1 + rng.below(8) }));
                    let mp = match rep {
                        0 => None,
                        1 => Some(rng.range_usize(0, w)),
                        _ => Some(1.min(w)),
                    };
                    let (x, _, _) = if rep == 2 { (series(&mut rng, ValClass::Dyadic, NullPat::NoNulls, len), ValClass::Dyadic, NullPat::NoNulls) } else { random_series(&mut rng, &ALL_CLASSES, len) };
                    let (y, _, _) = random_series(&mut rng, &ALL_CLASSES, len);
                    let cs = Case { x: &x, y: &y, w, mp };
                    rolling_matrix(&mut ctx, &mut rng, &cs);
                }
            }
        }
    }
    let nr = if san { ctx.cbudget(1, 4) } else { ctx.cbudget(40, 800) };
    for k in 0..nr {
        if let Some(mut rng) = ctx.random_case() {
            // caller-supplied VecDeque buffers: half of the cases with a rotated (physically wrapped) ring buffer
            tvmon::rollreg::BUF_ROT.with(|r| r.set(if rng.chance(0.5) { 0 } else { 1 + rng.below(8) }));
            let len = rng.range_usize(0, if san { 7 } else { 50 });
            let w = rng.range_usize(1, len + 2);
            let mp = if rng.chance(0.25) { None } else { Some(rng.range_usize(0, w)) };
            let (x, _, _) = if k % 3 == 0 { let c = *rng.pick(&ALL_CLASSES); (series(&mut rng, c, NullPat::NoNulls, len), c, NullPat::NoNulls) } else { random_series(&mut rng, &ALL_CLASSES, len) };
            let (y, _, _) = random_series(&mut rng, &ALL_CLASSES, len);
            let cs = Case { x: &x, y: &y, w, mp };
            rolling_matrix(&mut ctx, &mut rng, &cs);
        }
    }
    // ---- map / aggregation matrix and accessor coherence ---------------------------------
    let amax = if san { ctx.budget(2, 4) } else { ctx.budget(10, 16) };
    for len in 0..=amax {
        for pat in NULL_PATTERNS {
            if let Some(mut rng) = ctx.sweep_case() {
                // caller-supplied VecDeque buffers: half of the cases with a rotated (physically wrapped) ring buffer
                tvmon::rollreg::BUF_ROT.with(|r| r.set(if rng.chance(0.5) { 0 } else { 1 + rng.below(8) }));
                let class = *rng.pick(&ALL_CLASSES);
                let x = series(&mut rng, class, pat, len);
                accessor_suite(&mut ctx, &mut rng, &x);
                for _ in 0..4 {
                    map_matrix(&mut ctx, &mut rng, &x);
                }
            }
        }
    }
    let nm = if san { ctx.cbudget(2, 6) } else { ctx.cbudget(200, 4000) };
    for _ in 0..nm {
        if let Some(mut rng) = ctx.random_case() {
            // caller-supplied VecDeque buffers: half of the cases with a rotated (physically wrapped) ring buffer
            tvmon::rollreg::BUF_ROT.with(|r| r.set(if rng.chance(0.5) { 0 } else { 1 + rng.below(8) }));
            let len = rng.range_usize(0, 40);
            let (x, _, _) = random_series(&mut rng, &ALL_CLASSES, len);
            map_matrix(&mut ctx, &mut rng, &x);
            if rng.chance(0.2) {
                accessor_suite(&mut ctx, &mut rng, &x);
            }
        }
    }
    let os = tvmon::spy::take_out_stats();
    ctx.count_n("spyout.usets", os.usets);
    ctx.count_n("spyout.buffers_verified", os.buffers_verified);
    let _ = (|| -> Option<()> { let _: fn(f64) -> bool = |v| IsNone::is_none(&v); let _ = <f64 as Number>::min_(); let _: f64 = Cast::<f64>::cast(1i32); None })();
    std::process::exit(ctx.finish());
}
