//! C08 — NaN and None are the same null; nulls are transparent to valid aggregations.
//! Relational monitor: (i) re-encoding NaN <-> None (input and output side), (ii) null insertion.
use tevec::prelude::{
    AggValidBasic, AggValidExt, Keep, MapValidBasic, MapValidVec, PercentileOfMethod, QuantileMethod, TIter, Vec1View,
    VecAggValidExt,
};
use tvmon::ctx::{Ctx, catch, panic_key};
use tvmon::model::Obs;
use tvmon::rng::Rng;
use tvmon::rollreg::*;
use tvmon::wl::*;

/// cap on items taken from a library iterator: a runaway iterator becomes a length violation, not an OOM
const CAP: usize = 200_000;

fn obs_eq(a: &[Obs], b: &[Obs]) -> Option<usize> {
    if a.len() != b.len() {
        return Some(usize::MAX);
    }
    (0..a.len()).find(|&i| !((a[i].null && b[i].null) || (!a[i].null && !b[i].null && (a[i].v.to_bits() == b[i].v.to_bits() || (a[i].v.is_nan() && b[i].v.is_nan())))))
}

fn to_obs_f64(v: &[f64]) -> Vec<Obs> {
    v.iter().map(|x| x.obs()).collect()
}
fn to_obs_opt(v: &[Option<f64>]) -> Vec<Obs> {
    v.iter().map(|x| x.obs()).collect()
}

// ------------------------------------------------------------------------------------------
// (i) rolling functions under both input encodings and four output encodings
// ------------------------------------------------------------------------------------------

fn rolling_reencode(ctx: &mut Ctx, rng: &mut Rng, x: &Series, y: &Series, w: usize, mp: Option<usize>) {
    let (xn, xo) = (enc_f64(x), enc_opt_f64(x));
    let (yn, yo) = (enc_f64(y), enc_opt_f64(y));
    let path = if rng.chance(0.5) { Path::Ret } else { Path::Buf };
    let desc = |rf: Rf| format!("{} w={w} min_periods={mp:?} path={path:?} x={} y={}", rf.name(), fmt_series(x), if rf.is_pair() { fmt_series(y) } else { "-".into() });
    let mut judge = |ctx: &mut Ctx, rf: Rf, what: &str, base: &Result<Vec<Obs>, String>, other: Result<Vec<Obs>, String>, cast: Option<fn(f64) -> f64>| {
        ctx.evaluations += 1;
        match (base, other) {
            (Ok(b), Ok(o)) => {
                let bb: Vec<Obs> = match cast {
                    None => b.clone(),
                    Some(c) => b.iter().map(|v| if v.null { *v } else { Obs::val(c(v.v)) }).collect(),
                };
                ctx.events += bb.len() as u64;
                match obs_eq(&bb, &o) {
                    None => {
                        ctx.count(&format!("reencode_ok.{what}"));
                        if bb.iter().any(|v| !v.null) && bb.iter().any(|v| v.null) {
                            ctx.distinct(&format!("{}|{what}|{}|{w}|{mp:?}", rf.name(), x.len().min(24)));
                        }
                    },
                    Some(i) => ctx.violation(&format!("{}/reencode/{what}", rf.name()), || {
                        let (p, q) = if i == usize::MAX { ("len".into(), "len".into()) } else { (format!("{:?}", bb[i]), format!("{:?}", o[i])) };
                        format!("position {i}: NaN-encoded f64 run gives {p}, {what} run gives {q}; {}", desc(rf))
                    }),
                }
            },
            (Ok(_), Err(p)) => ctx.violation(&format!("{}/reencode_panic/{what}/{}", rf.name(), panic_key(&p)), || format!("only one encoding panics: {p}; {}", desc(rf))),
            (Err(p), Ok(_)) => ctx.violation(&format!("{}/reencode_panic/{what}/{}", rf.name(), panic_key(p)), || format!("only one encoding panics: {p}; {}", desc(rf))),
            (Err(_), Err(_)) => ctx.count("both_panic"),
        }
    };
    for rf in valid1_fns() {
        let base = catch(|| to_obs(&call_valid1::<Vec<f64>, f64, Vec<f64>, f64>(rf, &xn, w, mp, path)));
        // input encoding
        let r = catch(|| to_obs(&call_valid1::<Vec<Option<f64>>, Option<f64>, Vec<f64>, f64>(rf, &xo, w, mp, path)));
        judge(ctx, rf, "input=Option<f64>", &base, r, None);
        let r = catch(|| {
            let oi = xn.opt();
            to_obs(&call_valid1::<_, Option<f64>, Vec<f64>, f64>(rf, &oi, w, mp, path))
        });
        judge(ctx, rf, "input=opt()view", &base, r, None);
        // output encodings
        let r = catch(|| to_obs(&call_valid1::<Vec<f64>, f64, Vec<Option<f64>>, Option<f64>>(rf, &xn, w, mp, path)));
        judge(ctx, rf, "output=Option<f64>", &base, r, None);
        let r = catch(|| to_obs(&call_valid1::<Vec<Option<f64>>, Option<f64>, Vec<Option<f64>>, Option<f64>>(rf, &xo, w, mp, path)));
        judge(ctx, rf, "in+out=Option<f64>", &base, r, None);
        let r = catch(|| to_obs(&call_valid1::<Vec<f64>, f64, Vec<f32>, f32>(rf, &xn, w, mp, path)));
        judge(ctx, rf, "output=f32", &base, r, Some(|v| v as f32 as f64));
        let r = catch(|| to_obs(&call_valid1::<Vec<Option<f64>>, Option<f64>, Vec<Option<i32>>, Option<i32>>(rf, &xo, w, mp, path)));
        judge(ctx, rf, "output=Option<i32>", &base, r, Some(|v| v as i32 as f64));
    }
    for rf in PAIR_FNS {
        let path = if rf.has_buf_path() { path } else { Path::Ret };
        let base = catch(|| to_obs(&call_valid2::<Vec<f64>, f64, Vec<f64>, f64, Vec<f64>, f64>(rf, &xn, &yn, w, mp, path)));
        let r = catch(|| to_obs(&call_valid2::<Vec<Option<f64>>, Option<f64>, Vec<Option<f64>>, Option<f64>, Vec<f64>, f64>(rf, &xo, &yo, w, mp, path)));
        judge(ctx, rf, "input=Option<f64>", &base, r, None);
        let r = catch(|| to_obs(&call_valid2::<Vec<f64>, f64, Vec<Option<f64>>, Option<f64>, Vec<Option<f64>>, Option<f64>>(rf, &xn, &yo, w, mp, path)));
        judge(ctx, rf, "mixed-in,out=Option<f64>", &base, r, None);
        let r = catch(|| to_obs(&call_valid2::<Vec<f64>, f64, Vec<f64>, f64, Vec<f32>, f32>(rf, &xn, &yn, w, mp, path)));
        judge(ctx, rf, "output=f32", &base, r, Some(|v| v as f32 as f64));
        let r = catch(|| to_obs(&call_valid2::<Vec<Option<f64>>, Option<f64>, Vec<f64>, f64, Vec<Option<i32>>, Option<i32>>(rf, &xo, &yn, w, mp, path)));
        judge(ctx, rf, "output=Option<i32>", &base, r, Some(|v| v as i32 as f64));
    }
}

// ------------------------------------------------------------------------------------------
// (i) map functions and aggregations under both encodings
// ------------------------------------------------------------------------------------------

type Named = Vec<(&'static str, Result<Vec<Obs>, String>)>;

fn scal(v: f64) -> Vec<Obs> {
    vec![v.obs()]
}
fn scal_usize(v: Option<usize>) -> Vec<Obs> {
    vec![v.map(|u| Obs::val(u as f64)).unwrap_or(Obs::null())]
}

struct MapArgs {
    n: i32,
    k: usize,
    q: f64,
    fill: Option<f64>,
    lo: Option<f64>,
    hi: Option<f64>,
    score: Option<f64>,
    mp: usize,
}

fn maps_f64(x: &Vec<f64>, y: &Vec<f64>, a: &MapArgs) -> Named {
    let nn = |v: Option<f64>| v.unwrap_or(f64::NAN);
    let mut o: Named = Vec::new();
    let mut add = |n: &'static str, r: Result<Vec<Obs>, String>| o.push((n, r));
    add("vabs", catch(|| to_obs_f64(&x.titer().vabs().collect::<Vec<_>>())));
    add("ffill", catch(|| to_obs_f64(&x.titer().ffill(a.fill).collect::<Vec<_>>())));
    add("bfill", catch(|| to_obs_f64(&x.titer().bfill(a.fill).collect::<Vec<_>>())));
    add("fill", catch(|| to_obs_f64(&x.titer().fill(nn(a.fill)).collect::<Vec<_>>())));
    add("vclip", catch(|| to_obs_f64(&x.titer().vclip(nn(a.lo), nn(a.hi)).collect::<Vec<_>>())));
    add("vshift", catch(|| to_obs_f64(&x.titer().vshift(a.n, a.fill).take(CAP).collect::<Vec<_>>())));
    add("vpct_change", catch(|| to_obs_f64(&x.vpct_change(a.n).take(CAP).collect::<Vec<_>>())));
    add("vrank", catch(|| to_obs_f64(&x.vrank::<Vec<f64>, f64>(false, false))));
    add("vrank_pct_rev", catch(|| to_obs_f64(&x.vrank::<Vec<f64>, f64>(true, true))));
    add("vpartition", catch(|| to_obs_f64(&x.vpartition(a.k, true, false).collect::<Vec<_>>())));
    add("vpartition_rev", catch(|| to_obs_f64(&x.vpartition(a.k, true, true).collect::<Vec<_>>())));
    add("varg_partition", catch(|| x.varg_partition(a.k, true, false).map(|i| Obs::val(i as f64)).collect()));
    add("vsorted_unique", catch(|| to_obs_f64(&x.titer().vsorted_unique().collect::<Vec<_>>())));
    add("vsorted_unique_idx_first", catch(|| x.titer().vsorted_unique_idx(Keep::First).map(|i| Obs::val(i as f64)).collect()));
    add("count_valid", catch(|| vec![Obs::val(x.titer().count_valid() as f64)]));
    add("count_none", catch(|| vec![Obs::val(x.titer().count_none() as f64)]));
    add("vsum", catch(|| scal(nn(x.titer().vsum()))));
    add("vmean", catch(|| scal(x.titer().vmean())));
    add("vvar", catch(|| scal(x.titer().vvar(a.mp))));
    add("vstd", catch(|| scal(x.titer().vstd(a.mp))));
    add("vskew", catch(|| scal(x.titer().vskew(a.mp))));
    add("vkurt", catch(|| scal(x.titer().vkurt(a.mp))));
    add("vmin", catch(|| scal(nn(x.titer().vmin()))));
    add("vmax", catch(|| scal(nn(x.titer().vmax()))));
    add("vargmin", catch(|| scal_usize(x.titer().vargmin())));
    add("vargmax", catch(|| scal_usize(x.titer().vargmax())));
    add("vfirst", catch(|| scal(nn(x.titer().vfirst()))));
    add("vlast", catch(|| scal(nn(x.titer().vlast()))));
    add("vcount_value", catch(|| vec![Obs::val(x.titer().vcount_value(nn(a.score)) as f64)]));
    add("vcov", catch(|| scal(x.titer().vcov(y.titer(), a.mp))));
    add("vcorr_pearson", catch(|| scal(x.titer().vcorr_pearson::<f64, _, _>(y.titer(), a.mp))));
    add("vquantile", catch(|| scal(x.vquantile(a.q, QuantileMethod::Linear).unwrap_or(f64::INFINITY))));
    add("vquantile_lower", catch(|| scal(x.vquantile(a.q, QuantileMethod::Lower).unwrap_or(f64::INFINITY))));
    add("vmedian", catch(|| scal(x.vmedian())));
    add("vpercentile_of", catch(|| scal(x.titer().vpercentile_of(nn(a.score), PercentileOfMethod::Rank))));
    add("vpercentile_of_weak", catch(|| scal(x.titer().vpercentile_of(nn(a.score), PercentileOfMethod::Weak))));
    o
}

fn maps_opt(x: &Vec<Option<f64>>, y: &Vec<Option<f64>>, a: &MapArgs) -> Named {
    let mut o: Named = Vec::new();
    let mut add = |n: &'static str, r: Result<Vec<Obs>, String>| o.push((n, r));
    let ff = a.fill.map(Some);
    add("vabs", catch(|| to_obs_opt(&x.titer().vabs().collect::<Vec<_>>())));
    add("ffill", catch(|| to_obs_opt(&x.titer().ffill(ff).collect::<Vec<_>>())));
    add("bfill", catch(|| to_obs_opt(&x.titer().bfill(ff).collect::<Vec<_>>())));
    add("fill", catch(|| to_obs_opt(&x.titer().fill(a.fill).collect::<Vec<_>>())));
    add("vclip", catch(|| to_obs_opt(&x.titer().vclip(a.lo, a.hi).collect::<Vec<_>>())));
    add("vshift", catch(|| to_obs_opt(&x.titer().vshift(a.n, ff).take(CAP).collect::<Vec<_>>())));
    add("vpct_change", catch(|| to_obs_f64(&x.vpct_change(a.n).take(CAP).collect::<Vec<_>>())));
    add("vrank", catch(|| to_obs_opt(&x.vrank::<Vec<Option<f64>>, Option<f64>>(false, false))));
    add("vrank_pct_rev", catch(|| to_obs_opt(&x.vrank::<Vec<Option<f64>>, Option<f64>>(true, true))));
    add("vpartition", catch(|| to_obs_opt(&x.vpartition(a.k, true, false).collect::<Vec<_>>())));
    add("vpartition_rev", catch(|| to_obs_opt(&x.vpartition(a.k, true, true).collect::<Vec<_>>())));
    add("varg_partition", catch(|| x.varg_partition(a.k, true, false).map(|i| Obs::val(i as f64)).collect()));
    add("vsorted_unique", catch(|| to_obs_opt(&x.titer().vsorted_unique().collect::<Vec<_>>())));
    add("vsorted_unique_idx_first", catch(|| x.titer().vsorted_unique_idx(Keep::First).map(|i| Obs::val(i as f64)).collect()));
    add("count_valid", catch(|| vec![Obs::val(x.titer().count_valid() as f64)]));
    add("count_none", catch(|| vec![Obs::val(x.titer().count_none() as f64)]));
    add("vsum", catch(|| scal(x.titer().vsum().unwrap_or(f64::NAN))));
    add("vmean", catch(|| scal(x.titer().vmean())));
    add("vvar", catch(|| scal(x.titer().vvar(a.mp))));
    add("vstd", catch(|| scal(x.titer().vstd(a.mp))));
    add("vskew", catch(|| scal(x.titer().vskew(a.mp))));
    add("vkurt", catch(|| scal(x.titer().vkurt(a.mp))));
    add("vmin", catch(|| scal(x.titer().vmin().unwrap_or(f64::NAN))));
    add("vmax", catch(|| scal(x.titer().vmax().unwrap_or(f64::NAN))));
    add("vargmin", catch(|| scal_usize(x.titer().vargmin())));
    add("vargmax", catch(|| scal_usize(x.titer().vargmax())));
    add("vfirst", catch(|| scal(x.titer().vfirst().flatten().unwrap_or(f64::NAN))));
    add("vlast", catch(|| scal(x.titer().vlast().flatten().unwrap_or(f64::NAN))));
    add("vcount_value", catch(|| vec![Obs::val(x.titer().vcount_value(a.score) as f64)]));
    add("vcov", catch(|| scal(x.titer().vcov(y.titer(), a.mp).unwrap_or(f64::NAN))));
    add("vcorr_pearson", catch(|| scal(x.titer().vcorr_pearson::<f64, _, _>(y.titer(), a.mp))));
    add("vquantile", catch(|| scal(x.vquantile(a.q, QuantileMethod::Linear).unwrap_or(f64::INFINITY))));
    add("vquantile_lower", catch(|| scal(x.vquantile(a.q, QuantileMethod::Lower).unwrap_or(f64::INFINITY))));
    add("vmedian", catch(|| scal(x.vmedian())));
    add("vpercentile_of", catch(|| scal(x.titer().vpercentile_of(a.score, PercentileOfMethod::Rank))));
    add("vpercentile_of_weak", catch(|| scal(x.titer().vpercentile_of(a.score, PercentileOfMethod::Weak))));
    o
}

fn map_reencode(ctx: &mut Ctx, rng: &mut Rng, x: &Series, y: &Series) {
    let len = x.len();
    let pick_val = |rng: &mut Rng| -> Option<f64> {
        if rng.chance(0.3) {
            None
        } else if !x.is_empty() && rng.chance(0.6) {
            x[rng.below(len)].or(Some(0.5))
        } else {
            Some(rng.range_i64(-8, 8) as f64 / 2.0)
        }
    };
    let a = MapArgs {
        n: rng.range_i64(-(len as i64) - 2, len as i64 + 2) as i32,
        k: rng.range_usize(0, len + 1),
        q: *rng.pick(&[0.0, 0.2, 0.5, 0.7, 1.0]),
        fill: pick_val(rng),
        lo: pick_val(rng),
        hi: pick_val(rng),
        score: pick_val(rng),
        mp: rng.range_usize(0, 4),
    };
    let rn = maps_f64(&enc_f64(x), &enc_f64(y), &a);
    let ro = maps_opt(&enc_opt_f64(x), &enc_opt_f64(y), &a);
    for ((name, n), (_, o)) in rn.into_iter().zip(ro) {
        ctx.evaluations += 1;
        let d = || format!("{name}: n={} k={} q={} fill={:?} lo={:?} hi={:?} score={:?} min_periods={} x={} y={}", a.n, a.k, a.q, a.fill, a.lo, a.hi, a.score, a.mp, fmt_series(x), fmt_series(y));
        match (n, o) {
            (Ok(p), Ok(q)) => {
                ctx.events += p.len() as u64;
                match obs_eq(&p, &q) {
                    None => {
                        ctx.count("map_reencode_ok");
                        ctx.count(&format!("ok.{name}"));
                        if has_nulls(x) && x.iter().any(|v| v.is_some()) {
                            ctx.distinct(&format!("map|{name}|{}|{}|{}", len.min(24), a.n.clamp(-3, 3), a.k.min(6)));
                        }
                    },
                    Some(i) => ctx.violation(&format!("{name}/reencode"), || {
                        format!("element {i}: NaN-encoded result {:?} vs Option-encoded result {:?}; {}", p.get(i), q.get(i), d())
                    }),
                }
            },
            (Ok(_), Err(e)) | (Err(e), Ok(_)) => ctx.violation(&format!("{name}/reencode_panic/{}", panic_key(&e)), || format!("only one encoding panics: {e}; {}", d())),
            (Err(_), Err(_)) => ctx.count("both_panic"),
        }
    }
}

// ------------------------------------------------------------------------------------------
// (ii) null insertion
// ------------------------------------------------------------------------------------------

/// insert nulls into (x, y) at the given positions (position list refers to the growing vector);
/// returns the new series and, for every new index, the old index it came from
fn insert_nulls(x: &Series, y: &Series, rng: &mut Rng, how: usize) -> (Series, Series, Vec<Option<usize>>) {
    let len = x.len();
    let mut slots: Vec<usize> = Vec::new(); // number of nulls inserted before old index i (and at the end)
    slots.resize(len + 1, 0);
    match how {
        0 => slots[0] = rng.range_usize(1, 4),                    // leading block
        1 => slots[len] = rng.range_usize(1, 4),                  // trailing block
        2 => slots.iter_mut().for_each(|s| *s = 1),               // between every element
        3 => slots.iter_mut().for_each(|s| *s = rng.below(3)),    // random
        _ => slots[rng.below(len + 1)] = rng.range_usize(1, 6),   // one block anywhere
    }
    let (mut nx, mut ny, mut map) = (Vec::new(), Vec::new(), Vec::new());
    for i in 0..=len {
        for _ in 0..slots[i] {
            // pairwise deletion: a null in one series removes the pair whatever the other holds
            match rng.below(3) {
                0 => {
                    nx.push(None);
                    ny.push(None);
                },
                1 => {
                    nx.push(None);
                    ny.push(Some(rng.range_i64(-50, 50) as f64));
                },
                _ => {
                    nx.push(None);
                    ny.push(Some(0.125));
                },
            }
            map.push(None);
        }
        if i < len {
            nx.push(x[i]);
            ny.push(y[i]);
            map.push(Some(i));
        }
    }
    (nx, ny, map)
}

fn insertion(ctx: &mut Ctx, rng: &mut Rng, x: &Series, y: &Series) {
    let a = MapArgs {
        n: 0,
        k: 0,
        q: *rng.pick(&[0.0, 0.1, 0.25, 0.5, 0.75, 0.9, 1.0]),
        fill: None,
        lo: None,
        hi: None,
        score: if x.is_empty() || rng.chance(0.3) { Some(rng.range_i64(-8, 8) as f64) } else { x[rng.below(x.len())].or(Some(1.0)) },
        mp: rng.range_usize(0, 4),
    };
    let transparent = [
        "count_valid", "vsum", "vmean", "vvar", "vstd", "vskew", "vkurt", "vmin", "vmax", "vquantile", "vquantile_lower", "vmedian",
        "vpercentile_of", "vpercentile_of_weak", "vcov", "vcorr_pearson", "vfirst", "vlast", "vcount_value",
    ];
    let index_valued = ["vargmin", "vargmax"];
    let use_opt = rng.chance(0.5);
    let base: Named = if use_opt { maps_opt(&enc_opt_f64(x), &enc_opt_f64(y), &a) } else { maps_f64(&enc_f64(x), &enc_f64(y), &a) };
    for how in 0..5 {
        let (nx, ny, map) = insert_nulls(x, y, rng, how);
        let ins: Named = if use_opt { maps_opt(&enc_opt_f64(&nx), &enc_opt_f64(&ny), &a) } else { maps_f64(&enc_f64(&nx), &enc_f64(&ny), &a) };
        for ((name, b), (_, i)) in base.iter().zip(ins.iter()) {
            let is_t = transparent.contains(name);
            let is_i = index_valued.contains(name);
            if !is_t && !is_i {
                continue;
            }
            if *name == "vcount_value" && a.score.is_none() {
                continue; // counting nulls is of course not transparent to null insertion
            }
            ctx.evaluations += 1;
            let d = || format!("{name} (encoding {}): q={} score={:?} min_periods={} x={} y={} -> with nulls inserted (pattern {how}) x'={} y'={}", if use_opt { "Option" } else { "NaN" }, a.q, a.score, a.mp, fmt_series(x), fmt_series(y), fmt_series(&nx), fmt_series(&ny));
            match (b, i) {
                (Ok(p), Ok(q)) => {
                    ctx.events += 1;
                    let q2: Vec<Obs> = if is_i {
                        // map the index back through the insertion
                        q.iter().map(|o| if o.null { *o } else { map[o.v as usize].map(|j| Obs::val(j as f64)).unwrap_or(Obs::val(-1.0)) }).collect()
                    } else {
                        q.clone()
                    };
                    if obs_eq(p, &q2).is_some() {
                        ctx.violation(&format!("{name}/null_insertion"), || format!("{:?} before vs {:?} after inserting nulls; {}", p, q2, d()));
                    } else {
                        ctx.count("insertion_ok");
                        if x.len() > 2 && p.iter().any(|o| !o.null) {
                            ctx.sample(|| format!("{} : unchanged by the insertion ({:?})", d(), p));
                        }
                        ctx.count(&format!("insertion_ok.{name}"));
                        if p.iter().any(|o| !o.null) {
                            ctx.distinct(&format!("ins|{name}|{}|{how}|{use_opt}|{}", x.len().min(24), a.mp));
                        }
                    }
                },
                (Ok(_), Err(e)) | (Err(e), Ok(_)) => ctx.violation(&format!("{name}/null_insertion_panic/{}", panic_key(e)), || format!("panic on one side: {e}; {}", d())),
                _ => ctx.count("both_panic"),
            }
        }
    }
}

fn main() {
    let mut ctx = Ctx::from_args("C08");
    let nmax = ctx.budget(8, 12);
    for len in 0..=nmax {
        for w in 1..=len + 2 {
            for pat in NULL_PATTERNS {
                if let Some(mut rng) = ctx.sweep_case() {
                    let c = *rng.pick(&ALL_CLASSES);
                    let x = series(&mut rng, c, pat, len);
                    let (y, _, _) = random_series(&mut rng, &ALL_CLASSES, len);
                    let mp = if rng.chance(0.25) { None } else { Some(rng.range_usize(0, w)) };
                    rolling_reencode(&mut ctx, &mut rng, &x, &y, w, mp);
                    map_reencode(&mut ctx, &mut rng, &x, &y);
                    insertion(&mut ctx, &mut rng, &x, &y);
                }
            }
        }
    }
    let nr = ctx.cbudget(1500, 30000);
    for _ in 0..nr {
        if let Some(mut rng) = ctx.random_case() {
            let len = rng.range_usize(0, 60);
            let (x, _, _) = random_series(&mut rng, &ALL_CLASSES, len);
            let (y, _, _) = random_series(&mut rng, &ALL_CLASSES, len);
            let w = rng.range_usize(1, len + 2);
            let mp = if rng.chance(0.25) { None } else { Some(rng.range_usize(0, w)) };
            rolling_reencode(&mut ctx, &mut rng, &x, &y, w, mp);
            for _ in 0..3 {
                map_reencode(&mut ctx, &mut rng, &x, &y);
                insertion(&mut ctx, &mut rng, &x, &y);
            }
        }
    }
    std::process::exit(ctx.finish());
}
