//! C09 — trusted-length iterators yield exactly as many items as they announce.
//! Conservation monitor: size_hint().1 read before / after every partial consumption versus
//! items obtained by plain safe iteration; then the real trusted collectors on the same
//! pipelines (hook H1 natively; Miri / ASan / memcheck with hooks off).
use std::collections::VecDeque;

use tevec::export::ndarray::Array1;
use tevec::prelude::{
    MapBasic, MapValidBasic, MapValidFinal, MapValidVec, TIter, TrustedLen, Vec1Collect, Vec1Create, Vec1View, WinsorizeMethod,
};
use tvmon::backends::*;
use tvmon::ctx::{Ctx, catch, is_marked_panic, panic_key};
use tvmon::rng::Rng;
use tvmon::wl::*;

type BoxIt<'a> = Box<dyn TrustedLen<Item = f64> + 'a>;

fn bits(v: &[f64]) -> Vec<u64> {
    v.iter().map(|x| if x.is_nan() { 0x7ff8 << 48 } else { x.to_bits() }).collect()
}

/// Conservation check of one iterator factory. `expect_len`: the length a shift-like adaptor must preserve.
fn conserve<'a>(ctx: &mut Ctx, name: &str, desc: &dyn Fn() -> String, mk: &dyn Fn() -> BoxIt<'a>, expect_len: Option<usize>) -> Option<Vec<f64>> {
    ctx.evaluations += 1;
    ctx.count(&format!("subjects.{name}"));
    // full consumption
    let full = catch(|| {
        let it = mk();
        let h = it.size_hint();
        // the trait's own accessors announce the same thing
        let (tl, te) = (TrustedLen::len(&it), TrustedLen::is_empty(&it));
        let items: Vec<f64> = it.take(1_000_000).collect();
        (h, items, tl, te)
    });
    let full = match full {
        Ok((h, items, tl, te)) => {
            if Some(tl) != h.1 || te != (tl == 0) {
                ctx.violation(&format!("{name}/len_accessors"), || format!("size_hint {h:?}, TrustedLen::len {tl}, is_empty {te}, {} items; {}", items.len(), desc()));
                return None;
            }
            Ok((h, items))
        },
        Err(p) => Err(p),
    };
    let (h0, items) = match full {
        Ok(v) => v,
        Err(p) => {
            let kind = if is_marked_panic(&p) { "memory" } else { "panic" };
            ctx.violation(&format!("{name}/{kind}/{}", panic_key(&p)), || format!("{p}; {}", desc()));
            return None;
        },
    };
    ctx.events += 1;
    if h0.1 != Some(items.len()) {
        ctx.violation(&format!("{name}/announced_vs_yielded"), || {
            format!("size_hint upper bound {:?} but {} items yielded; {}", h0.1, items.len(), desc())
        });
        return None;
    }
    if let Some(el) = expect_len {
        if items.len() != el {
            ctx.violation(&format!("{name}/length_not_preserved"), || format!("{} items for an input of {el}; {}", items.len(), desc()));
            return None;
        }
    }
    // partial consumption from the front: after k items the announced remainder must be total - k
    let total = items.len();
    let probes: Vec<usize> = if total <= 12 { (1..=total).collect() } else { vec![1, 2, 3, total / 2, total - 1, total] };
    for k in probes {
        let r = catch(|| {
            let mut it = mk();
            for _ in 0..k {
                it.next();
            }
            let h = it.size_hint();
            let rest = it.count();
            (h, rest)
        });
        ctx.events += 1;
        match r {
            Ok((h, rest)) => {
                if h.1 != Some(rest) {
                    ctx.violation(&format!("{name}/hint_after_partial_consumption"), || {
                        format!("after {k} of {total} items: size_hint upper bound {:?} but {rest} items remain; {}", h.1, desc())
                    });
                    return Some(items);
                }
                ctx.count("partial_probes_ok");
            },
            Err(p) => {
                ctx.violation(&format!("{name}/panic/{}", panic_key(&p)), || format!("{p} during partial consumption; {}", desc()));
                return Some(items);
            },
        }
    }
    // partial consumption by skipping: nth(j) for j around the end (an nth that runs past the end
    // must leave an iterator that announces nothing)
    let mut js: Vec<usize> = vec![0, 1, total.saturating_sub(1), total, total + 1, total + 3];
    js.sort_unstable();
    js.dedup();
    for j in js {
        let r = catch(|| {
            let mut it = mk();
            let got = it.nth(j);
            let h = it.size_hint();
            let rest = it.take(1_000_000).count();
            (got.is_some(), h, rest)
        });
        ctx.events += 1;
        match r {
            Ok((some, h, rest)) => {
                if h.1 != Some(rest) || rest != total.saturating_sub(j + 1) || some != (j < total) {
                    ctx.violation(&format!("{name}/hint_after_nth"), || {
                        format!("nth({j}) of {total} items returned Some={some}: size_hint upper bound {:?} but {rest} items remain; {}", h.1, desc())
                    });
                    return Some(items);
                }
                ctx.count("nth_probes_ok");
            },
            Err(p) => {
                ctx.violation(&format!("{name}/panic/{}", panic_key(&p)), || format!("{p} during nth({j}); {}", desc()));
                return Some(items);
            },
        }
    }
    // the real trusted collectors
    let want = bits(&items);
    let cols: [(&str, Box<dyn Fn() -> Vec<f64> + '_>); 3] = [
        ("vec", Box::new(|| mk().collect_trusted_vec1::<Vec<f64>>())),
        ("deque", Box::new(|| mk().collect_trusted_vec1::<VecDeque<f64>>().into_iter().collect())),
        ("array1", Box::new(|| mk().collect_trusted_vec1::<Array1<f64>>().to_vec())),
    ];
    for (cn, f) in cols.iter() {
        ctx.events += 1;
        match catch(|| f()) {
            Ok(v) => {
                if bits(&v) != want {
                    ctx.violation(&format!("{name}/collector_content/{cn}"), || format!("collect_trusted_vec1 into {cn} gives {v:?}, safe iteration gives {items:?}; {}", desc()));
                } else {
                    ctx.count("collectors_ok");
                }
            },
            Err(p) => {
                let kind = if is_marked_panic(&p) { "memory" } else { "panic" };
                ctx.violation(&format!("{name}/collector_{kind}/{}", panic_key(&p)), || format!("collecting into {cn}: {p}; {}", desc()));
            },
        }
    }
    if total > 0 {
        ctx.distinct(&format!("{name}|{total}|{}", desc().len() % 97));
    }
    ctx.sample(|| format!("{}: announced {:?} = yielded {} at start and after every partial consumption; trusted collectors agree", desc(), h0.1, total));
    Some(items)
}

/// double-ended conservation for the container iterators
fn conserve_titer<V: Vec1View<f64>>(ctx: &mut Ctx, v: &V, label: &str, logical: &[f64]) {
    ctx.evaluations += 1;
    ctx.count(&format!("subjects.titer[{label}]"));
    let len = logical.len();
    for front in 0..=len.min(6) {
        for back in 0..=(len - front).min(6) {
            ctx.events += 1;
            let mut it = v.titer();
            let mut got_f = Vec::new();
            let mut got_b = Vec::new();
            for _ in 0..front {
                if let Some(x) = it.next() {
                    got_f.push(x);
                }
            }
            for _ in 0..back {
                if let Some(x) = it.next_back() {
                    got_b.push(x);
                }
            }
            let h = it.size_hint();
            let rest: Vec<f64> = it.collect();
            if h.1 != Some(rest.len()) || rest.len() != len - front - back {
                ctx.violation(&format!("titer[{label}]/hint_after_partial_consumption"), || {
                    format!("len {len}, after {front} from the front and {back} from the back: hint {:?}, {} items remain", h, rest.len())
                });
                return;
            }
            got_b.reverse();
            let all: Vec<f64> = got_f.into_iter().chain(rest).chain(got_b).collect();
            if bits(&all) != bits(logical) {
                ctx.violation(&format!("titer[{label}]/content"), || format!("front/back consumption yields {all:?} for {logical:?}"));
                return;
            }
        }
    }
    ctx.count("titer_ok");
    ctx.distinct(&format!("titer|{label}|{len}"));
}

fn lag_values(len: usize) -> Vec<i32> {
    let l = len as i32;
    let mut v: Vec<i32> = (-l - 3..=l + 3).collect();
    v.push(i32::MIN);
    v.push(i32::MAX);
    v
}

fn adaptor_suite(ctx: &mut Ctx, rng: &mut Rng, x: &Series) {
    let xf = enc_f64(x);
    let len = xf.len();
    let ds = |s: String| move || s.clone();
    let xs = fmt_series(x);
    // shift-like adaptors over the whole critical band of lags
    for n in lag_values(len) {
        let fill = if rng.chance(0.5) { None } else { Some(0.25) };
        conserve(ctx, "shift", &ds(format!("shift(n={n}, 9.5) over titer of {xs}")), &|| xf.titer().shift(n, 9.5), Some(len));
        conserve(ctx, "vshift", &ds(format!("vshift(n={n}, {fill:?}) over titer of {xs}")), &|| xf.titer().vshift(n, fill), Some(len));
        conserve(ctx, "vdiff", &ds(format!("vdiff(n={n}, {fill:?}) of {xs}")), &|| xf.vdiff(n, fill), Some(len));
        conserve(ctx, "vpct_change", &ds(format!("vpct_change(n={n}) of {xs}")), &|| xf.vpct_change(n), Some(len));
    }
    let fv = if rng.chance(0.5) { None } else { Some(-1.0) };
    conserve(ctx, "ffill", &ds(format!("ffill({fv:?}) of {xs}")), &|| Box::new(xf.titer().ffill(fv)), Some(len));
    conserve(ctx, "bfill", &ds(format!("bfill({fv:?}) of {xs}")), &|| Box::new(xf.titer().bfill(fv)), Some(len));
    conserve(ctx, "fill", &ds(format!("fill(0.5) of {xs}")), &|| Box::new(xf.titer().fill(0.5)), Some(len));
    conserve(ctx, "abs", &ds(format!("abs of {xs}")), &|| Box::new(xf.titer().abs()), Some(len));
    conserve(ctx, "vabs", &ds(format!("vabs of {xs}")), &|| Box::new(xf.titer().vabs()), Some(len));
    for (lo, hi) in [(f64::NAN, f64::NAN), (-1.0, f64::NAN), (f64::NAN, 2.0), (-1.0, 2.0), (2.0, -1.0)] {
        conserve(ctx, "vclip", &ds(format!("vclip({lo},{hi}) of {xs}")), &|| xf.titer().vclip(lo, hi), Some(len));
    }
    for k in 0..=len + 2 {
        for (sort, rev) in [(false, false), (true, false), (true, true), (false, true)] {
            conserve(ctx, "vpartition", &ds(format!("vpartition(k={k}, sort={sort}, rev={rev}) of {xs}")), &|| xf.vpartition(k, sort, rev), None);
            conserve(ctx, "varg_partition", &ds(format!("varg_partition(k={k}, sort={sort}, rev={rev}) of {xs}")), &|| {
                Box::new(xf.varg_partition(k, sort, rev).map(|i| i as f64))
            }, None);
        }
    }
    for (m, p) in [(WinsorizeMethod::Quantile, 0.1), (WinsorizeMethod::Median, 1.0), (WinsorizeMethod::Sigma, 1.0)] {
        if let Ok(Ok(_)) = catch(|| xf.winsorize(m, Some(p)).map(|_| ())) {
            conserve(ctx, "winsorize", &ds(format!("winsorize(p={p}) of {xs}")), &|| xf.winsorize(m, Some(p)).unwrap(), Some(len));
        }
    }
    for w in 1..=len + 2 {
        conserve(ctx, "rolling_custom_iter", &ds(format!("rolling_custom_iter(w={w}) of {xs}")), &|| {
            Box::new(xf.rolling_custom_iter(w, |s: &[f64]| s.iter().filter(|v| !v.is_nan()).sum::<f64>()))
        }, Some(len));
    }
    // the lazy rolling iterator of every other backend (each may override the default body)
    {
        let dq = deque_of(&xf, rng.below(len + 1));
        let arr = nd_owned(&xf);
        let step = *rng.pick(&[1isize, 2, -1]);
        let base = nd_base(&xf, step, 7e5);
        let view = nd_view(&base, step);
        let av = arc_vec(&xf);
        let fsum = |it: &mut dyn Iterator<Item = f64>| it.filter(|v| !v.is_nan()).sum::<f64>();
        for w in 1..=len + 3 {
            conserve(ctx, "rolling_custom_iter[deque]", &ds(format!("rolling_custom_iter(w={w}) of deque {xs}")), &|| {
                Box::new(dq.rolling_custom_iter(w, |s| fsum(&mut s.copied())))
            }, Some(len));
            conserve(ctx, "rolling_custom_iter[array1]", &ds(format!("rolling_custom_iter(w={w}) of array1 {xs}")), &|| {
                Box::new(arr.rolling_custom_iter(w, |s| fsum(&mut s.iter().copied())))
            }, Some(len));
            conserve(ctx, "rolling_custom_iter[arrayview1]", &ds(format!("rolling_custom_iter(w={w}) of arrayview1(step {step}) {xs}")), &|| {
                Box::new(view.rolling_custom_iter(w, |s| fsum(&mut s.iter().copied())))
            }, Some(len));
            conserve(ctx, "rolling_custom_iter[arc<vec>]", &ds(format!("rolling_custom_iter(w={w}) of arc<vec> {xs}")), &|| {
                Box::new(av.rolling_custom_iter(w, |s: &[f64]| fsum(&mut s.iter().copied())))
            }, Some(len));
            let ov = xf.opt();
            conserve(ctx, "rolling_custom_iter[optiter]", &ds(format!("rolling_custom_iter(w={w}) of opt view {xs}")), &|| {
                Box::new(ov.rolling_custom_iter(w, |s: Vec<Option<f64>>| s.into_iter().flatten().sum::<f64>()))
            }, Some(len));
            // rolling_custom (returned path) collects the lazy iterator with the trusted collector
            ctx.events += 1;
            match catch(|| ov.rolling_custom::<Vec<f64>, f64, _>(w, |s: Vec<Option<f64>>| s.into_iter().flatten().sum::<f64>(), None).map(|v| v.len())) {
                Ok(Some(l)) if l == len => ctx.count("rolling_custom_collected_ok"),
                Ok(l) => ctx.violation("rolling_custom[optiter]/length", || format!("rolling_custom(w={w}) on the opt view of {xs} returns {l:?} elements")),
                Err(p) => {
                    let kind = if is_marked_panic(&p) { "memory" } else { "panic" };
                    ctx.violation(&format!("rolling_custom[optiter]/{kind}/{}", panic_key(&p)), || format!("{p}; rolling_custom(w={w}) on the opt view of {xs}"));
                },
            }
        }
        #[cfg(feature = "polars")]
        {
            let xo = enc_opt_f64(x);
            for nch in 1..=3usize {
                let ca = pl::f64_chunked(&xo, nch);
                for w in 1..=len + 3 {
                    conserve(ctx, "rolling_custom_iter[polars]", &ds(format!("rolling_custom_iter(w={w}) of polars ({nch} chunks) {xs}")), &|| {
                        Box::new(ca.rolling_custom_iter(w, |s| s.titer().flatten().sum::<f64>()))
                    }, Some(len));
                    let r = &ca;
                    conserve(ctx, "rolling_custom_iter[&polars]", &ds(format!("rolling_custom_iter(w={w}) of &polars ({nch} chunks) {xs}")), &|| {
                        Box::new(r.rolling_custom_iter(w, |s| s.titer().flatten().sum::<f64>()))
                    }, Some(len));
                }
            }
        }
    }
    // vcut: all small bin / label sizes
    for nb in 0..=3usize {
        for nl in 0..=4usize {
            let bins: Vec<f64> = (0..nb).map(|i| i as f64 * 2.0 - 1.0).collect();
            let labels: Vec<f64> = (0..nl).map(|i| 100.0 + i as f64).collect();
            for (right, add) in [(true, true), (false, true), (true, false), (false, false)] {
                let ok = catch(|| xf.titer().vcut(&bins, &labels, right, add).is_ok());
                match ok {
                    Ok(true) => {
                        conserve(ctx, "vcut", &ds(format!("vcut(bins={bins:?}, labels={labels:?}, right={right}, add_bounds={add}) of {xs}")), &|| {
                            Box::new(xf.titer().vcut(&bins, &labels, right, add).unwrap().map(|r: tevec::prelude::TResult<f64>| r.unwrap_or(-7.0)))
                        }, Some(len));
                    },
                    Ok(false) => ctx.count("vcut_label_mismatch_err"),
                    Err(p) => ctx.violation(&format!("vcut/panic/{}", panic_key(&p)), || format!("{p}; bins={bins:?} labels={labels:?} x={xs}")),
                }
            }
        }
    }
}

fn generator_suite(ctx: &mut Ctx, rng: &mut Rng) {
    // range / linspace are only reachable through the collecting constructors: hook H1 (native)
    // or the sanitizers (hooks off) observe the raw collector under them
    for _ in 0..40 {
        let a = rng.range_i64(-6, 6);
        let b = rng.range_i64(-6, 6);
        let mut st = rng.range_i64(-3, 3);
        if st == 0 {
            st = 1;
        }
        ctx.evaluations += 3;
        let d = format!("range({a},{b},{st})");
        for (ty, r) in [
            ("i32", catch(|| <Vec<i32> as Vec1Create<i32>>::range(Some(a as i32), b as i32, Some(st as i32)).len())),
            ("f64", catch(|| <Vec<f64> as Vec1Create<f64>>::range(Some(a as f64 / 2.0), b as f64 / 2.0, Some(st as f64 / 4.0)).len())),
            ("opt f64", catch(|| <Vec<Option<f64>> as Vec1Create<Option<f64>>>::range(Some(a as f64), b as f64, Some(st as f64 / 2.0)).len())),
        ] {
            ctx.events += 1;
            match r {
                Ok(_) => ctx.count("generators_ok"),
                Err(p) if is_marked_panic(&p) => ctx.violation(&format!("range/memory/{}", panic_key(&p)), || format!("{p}; {d} as {ty}")),
                Err(_) => ctx.count("generator_clean_panics"), // judged by C19
            }
        }
        let n = rng.range_usize(0, 9);
        for r in [catch(|| <Vec<f64> as Vec1Create<f64>>::linspace(Some(a as f64), b as f64, n).len()), catch(|| <VecDeque<i32> as Vec1Create<i32>>::linspace(Some(a as i32), b as i32, n).len())] {
            ctx.events += 1;
            match r {
                Ok(l) if l == n => ctx.count("generators_ok"),
                Ok(l) => ctx.violation("linspace/length", || format!("linspace({a},{b},{n}) has {l} elements")),
                Err(p) if is_marked_panic(&p) => ctx.violation(&format!("linspace/memory/{}", panic_key(&p)), || format!("{p}; linspace({a},{b},{n})")),
                Err(_) => ctx.count("generator_clean_panics"),
            }
        }
        // hook H4 (native modes): the generator iterators themselves, not only what the collecting
        // constructors make of them - conservation under next / nth / back consumption
        #[cfg(feature = "hooks")]
        {
            use tea_core::verif_hooks::generators::{linspace, range};
            let (fa, fb, fs) = (a as f64 / 2.0, b as f64 / 2.0, st as f64 / 4.0);
            let ds = |s: String| move || s.clone();
            conserve(ctx, "range_iter", &ds(format!("range({fa},{fb},{fs}) generator")), &|| Box::new(range(fa, fb, fs)), None);
            conserve(ctx, "range_iter", &ds(format!("range({a},{b},{st}) i32 generator")), &|| Box::new(range(a as i32, b as i32, st as i32).map(|v| v as f64)), None);
            conserve(ctx, "linspace_iter", &ds(format!("linspace({a},{b},{n}) generator")), &|| Box::new(linspace(a as f64, b as f64, n)), Some(n));
            // both ends
            for (name, mk) in [
                ("range_iter", Box::new(|| range(fa, fb, fs)) as Box<dyn Fn() -> tea_core::verif_hooks::generators::Linspace<f64>>),
                ("linspace_iter", Box::new(|| linspace(a as f64, b as f64, n))),
            ] {
                let all: Vec<f64> = mk().take(1_000).collect();
                let total = all.len();
                for front in 0..=total.min(3) {
                    for back in 0..=(total - front).min(3) {
                        ctx.events += 1;
                        let mut it = mk();
                        let mut got_f = Vec::new();
                        let mut got_b = Vec::new();
                        for _ in 0..front {
                            got_f.extend(it.next());
                        }
                        for _ in 0..back {
                            got_b.extend(it.next_back());
                        }
                        let h = it.size_hint();
                        let rest: Vec<f64> = it.by_ref().take(1_000).collect();
                        // an exhausted generator stays exhausted from both ends and announces nothing
                        let after = catch(|| (it.next_back().is_none(), it.next().is_none(), it.size_hint().1));
                        if after != Ok((true, true, Some(0))) {
                            ctx.violation(&format!("{name}/exhausted"), || format!("{name} a={a} b={b} st={st} n={n}: after exhaustion (next_back is None, next is None, hint) = {after:?}"));
                            return;
                        }
                        got_b.reverse();
                        let seq: Vec<f64> = got_f.into_iter().chain(rest.iter().copied()).chain(got_b).collect();
                        if h.1 != Some(rest.len()) || rest.len() != total - front - back || bits(&seq) != bits(&all) {
                            ctx.violation(&format!("{name}/double_ended"), || {
                                format!("{name} a={a} b={b} st={st} n={n}: after {front} from the front and {back} from the back hint {h:?}, {} remain, sequence {seq:?} vs {all:?}", rest.len())
                            });
                            return;
                        }
                        ctx.count("generator_iter_probes_ok");
                    }
                }
            }
        }
    }
}

/// random pipeline of depth 1..=6 over a boxed trusted iterator
fn build_pipeline<'a>(x: &'a [f64], y: &'a [f64], steps: &[(u8, i32, f64)]) -> (BoxIt<'a>, String) {
    let mut it: BoxIt<'a> = Box::new(x.titer());
    let mut d = String::from("titer");
    for &(op, n, v) in steps {
        let k = n.unsigned_abs() as usize % 5 + 1;
        let nd: String;
        let ni: BoxIt<'a> = match op % 14 {
            0 => {
                nd = format!("{d}.shift({n},{v})");
                it.shift(n, v)
            },
            1 => {
                nd = format!("{d}.vshift({n},Some({v}))");
                it.vshift(n, Some(v))
            },
            2 => {
                nd = format!("{d}.vshift({n},None)");
                it.vshift(n, None)
            },
            3 => {
                nd = format!("{d}.abs()");
                Box::new(it.abs())
            },
            4 => {
                nd = format!("{d}.vabs()");
                Box::new(it.vabs())
            },
            5 => {
                nd = format!("{d}.ffill(Some({v}))");
                Box::new(it.ffill(Some(v)))
            },
            6 => {
                nd = format!("{d}.fill({v})");
                Box::new(it.fill(v))
            },
            7 => {
                nd = format!("{d}.vclip(..)");
                it.vclip(-v.abs(), v.abs() + 1.0)
            },
            8 => {
                nd = format!("{d}.map(..)");
                Box::new(it.map(move |z| z * 2.0 + v))
            },
            9 => {
                nd = format!("{d}.take({k})");
                Box::new(it.take(k))
            },
            10 => {
                nd = format!("{d}.chain(titer)");
                Box::new(it.chain(y.titer()))
            },
            11 => {
                nd = format!("{d}.zip(titer).map(..)");
                Box::new(it.zip(y.titer()).map(|(a, b)| a - b))
            },
            12 => {
                nd = format!("{d}.enumerate().map(..)");
                Box::new(it.enumerate().map(|(i, a)| a + i as f64))
            },
            _ => {
                nd = format!("{d}.step_by({k})");
                Box::new(it.step_by(k))
            },
        };
        it = ni;
        d = nd;
    }
    (it, d)
}

fn pipeline_suite(ctx: &mut Ctx, rng: &mut Rng, x: &Series, y: &Series) {
    let (xf, yf) = (enc_f64(x), enc_f64(y));
    let len = xf.len() as i32;
    let depth = rng.range_usize(1, 6);
    let steps: Vec<(u8, i32, f64)> = (0..depth)
        .map(|_| {
            let n = if rng.chance(0.1) { *rng.pick(&[i32::MIN, i32::MAX]) } else { rng.range_i64(-(len as i64) - 3, len as i64 + 3) as i32 };
            (rng.below(14) as u8, n, rng.range_i64(-4, 4) as f64 / 2.0)
        })
        .collect();
    let (_, d) = build_pipeline(&xf, &yf, &steps);
    let xs = fmt_series(x);
    ctx.count(&format!("pipeline_depth.{depth}"));
    conserve(ctx, "pipeline", &|| format!("{d} over x={xs}"), &|| build_pipeline(&xf, &yf, &steps).0, None);
}

fn titer_suite(ctx: &mut Ctx, rng: &mut Rng, x: &Series) {
    let xf = enc_f64(x);
    let len = xf.len();
    conserve_titer(ctx, &xf, "vec", &xf);
    let dq = deque_of(&xf, rng.below(len + 1));
    ctx.count(if deque_is_wrapped(&dq) { "deque_wrapped" } else { "deque_contiguous" });
    conserve_titer(ctx, &dq, "deque", &xf);
    let a = nd_owned(&xf);
    conserve_titer(ctx, &a, "array1", &xf);
    let step = *rng.pick(&[2isize, 3, -1, -2]);
    let base = nd_base(&xf, step, 5e5);
    let v = nd_view(&base, step);
    conserve_titer(ctx, &v, "arrayview1", &xf);
    let av = arc_vec(&xf);
    conserve_titer(ctx, &av, "arc<vec>", &xf);
    #[cfg(feature = "polars")]
    {
        use tevec::export::polars::prelude::Float64Chunked;
        let xo = enc_opt_f64(x);
        let ca = pl::f64_chunked(&xo, rng.range_usize(1, 3));
        // polars iterators carry Option<f64>
        ctx.evaluations += 1;
        for front in 0..=len.min(4) {
            for back in 0..=(len - front).min(4) {
                ctx.events += 1;
                let mut it = ca.titer();
                for _ in 0..front {
                    it.next();
                }
                for _ in 0..back {
                    it.next_back();
                }
                let h = it.size_hint();
                let rest = it.count();
                if h.1 != Some(rest) || rest != len - front - back {
                    ctx.violation("titer[polars]/hint_after_partial_consumption", || format!("len {len}, after {front} front / {back} back: hint {h:?}, {rest} remain"));
                }
            }
        }
        // trusted collection into a polars array
        let r = catch(|| {
            let out: Float64Chunked = xo.titer().vshift(1, None).collect_trusted_vec1();
            out.titer().collect::<Vec<Option<f64>>>()
        });
        match r {
            Ok(v) if v.len() == len => ctx.count("polars_collect_ok"),
            Ok(v) => ctx.violation("collect_trusted/polars/length", || format!("{} items collected for a hint of {len}", v.len())),
            Err(p) => ctx.violation(&format!("collect_trusted/polars/panic/{}", panic_key(&p)), || p.clone()),
        }
    }
}

fn main() {
    let mut ctx = Ctx::from_args("C09");
    let san = ctx.is_sanitizer_mode();
    let nmax = if san { ctx.budget(3, 5) } else { ctx.budget(7, 12) };
    for len in 0..=nmax {
        for pat in [NullPat::NoNulls, NullPat::Random50, NullPat::All, NullPat::Leading] {
            if let Some(mut rng) = ctx.sweep_case() {
                let c = *rng.pick(&ALL_CLASSES);
                let x = series(&mut rng, c, pat, len);
                adaptor_suite(&mut ctx, &mut rng, &x);
                titer_suite(&mut ctx, &mut rng, &x);
            }
        }
    }
    if let Some(mut rng) = ctx.random_case() {
        generator_suite(&mut ctx, &mut rng);
    }
    let np = if san { ctx.cbudget(30, 120) } else { ctx.cbudget(20000, 400000) };
    for _ in 0..np {
        if let Some(mut rng) = ctx.random_case() {
            let len = rng.range_usize(0, if san { 8 } else { 24 });
            let (x, _, _) = random_series(&mut rng, &ALL_CLASSES, len);
            let ly = rng.range_usize(0, if san { 8 } else { 24 });
            let (y, _, _) = random_series(&mut rng, &ALL_CLASSES, ly);
            pipeline_suite(&mut ctx, &mut rng, &x, &y);
        }
    }
    std::process::exit(ctx.finish());
}
