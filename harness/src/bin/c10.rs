//! C10 — kernels never index out of bounds and initialise every output slot exactly once.
//! Instrumented input (access log) and output (write log) containers, hooks H2/H3 natively,
//! Miri / ASan / memcheck with hooks off on the same call list with real containers.
use std::collections::VecDeque;

use tevec::export::ndarray::Array1;
use tevec::prelude::{MapValidVec, QuantileMethod, TIter, UninitVec, Vec1, Vec1View, VecAggValidExt};
use tvmon::backends::*;
use tvmon::ctx::{Ctx, catch, is_marked_panic, panic_key};
use tvmon::rng::Rng;
use tvmon::rollreg::*;
use tvmon::spy::{SpyOut, SpyVec, SpyVecFast, take_out_stats};
use tvmon::wl::*;

struct P<'a> {
    x: &'a Series,
    y: &'a Series,
    w: usize,
    mp: Option<usize>,
}

fn desc(rf: Rf, label: &str, p: &P, path: Path) -> String {
    format!("{} [{label}] w={} min_periods={:?} path={path:?} x={} y={}", rf.name(), p.w, p.mp, fmt_series(p.x), if rf.is_pair() { fmt_series(p.y) } else { "-".into() })
}

/// outcome rule of C10: fully defined result or clean panic
fn outcome<U: OutElem>(ctx: &mut Ctx, rf: Rf, label: &str, p: &P, path: Path, expect_len: usize, r: Result<Vec<U>, String>) {
    ctx.evaluations += 1;
    let name = rf.name();
    match r {
        Ok(v) => {
            ctx.events += v.len() as u64;
            if v.len() != expect_len && p.w > 0 && p.y.len() >= p.x.len() {
                // in-domain parameters: one output per input (degenerate ones are free to differ)
                ctx.violation(&format!("{name}/length/{label}"), || format!("{} outputs for {} inputs; {}", v.len(), expect_len, desc(rf, label, p, path)));
                return;
            }
            if let Some(i) = v.iter().position(|u| u.is_poison()) {
                ctx.violation(&format!("{name}/uninit_output/{label}"), || format!("output slot {i} was never written (poison pattern); {}", desc(rf, label, p, path)));
                return;
            }
            ctx.count("defined_results");
            if (p.w == 0 || p.w > p.x.len()) && !v.is_empty() {
                ctx.sample(|| format!("{} -> fully defined result of {} slots (every slot written exactly once, every access in bounds)", desc(rf, label, p, path), v.len()));
            }
            if p.w == 0 || p.y.len() != p.x.len() {
                ctx.count("degenerate_defined_results");
            }
            if !v.is_empty() {
                ctx.distinct(&format!("{name}|{label}|{path:?}|{}|{}|{:?}|{}", p.x.len().min(16), p.w.min(20), p.mp.map(|m| m.min(20)), p.y.len() as i64 - p.x.len() as i64));
            }
        },
        Err(e) => {
            if is_marked_panic(&e) {
                ctx.violation(&format!("{name}/memory/{}/{label}", panic_key(&e)), || format!("{e}; {}", desc(rf, label, p, path)));
            } else {
                ctx.count("clean_panics");
                if p.w == 0 {
                    ctx.count("clean_panics.window0");
                } else if p.y.len() != p.x.len() {
                    ctx.count("clean_panics.mismatched_second_series");
                } else {
                    // in-domain call: a panic is a violation of the value properties, counted here
                    ctx.count("clean_panics.in_domain");
                }
            }
        },
    }
}

macro_rules! run1 {
    ($ctx:expr, $p:expr, $fns:expr, $caller:ident, $v:expr, $V:ty, $T:ty, $O:ty, $U:ty, $label:expr) => {{
        for rf in $fns {
            for path in [Path::Ret, Path::Buf] {
                let r = catch(|| {
                    let o: $O = $caller::<$V, $T, $O, $U>(rf, $v, $p.w, $p.mp, path);
                    o.titer().collect::<Vec<$U>>()
                });
                outcome($ctx, rf, $label, $p, path, $p.x.len(), r);
            }
        }
    }};
}

macro_rules! run2 {
    ($ctx:expr, $p:expr, $v:expr, $V:ty, $v2:expr, $V2:ty, $O:ty, $label:expr) => {{
        for rf in PAIR_FNS {
            for path in [Path::Ret, Path::Buf] {
                if path == Path::Buf && !rf.has_buf_path() {
                    continue;
                }
                let r = catch(|| {
                    let o: $O = call_valid2::<$V, f64, $V2, f64, $O, f64>(rf, $v, $v2, $p.w, $p.mp, path);
                    o.titer().collect::<Vec<f64>>()
                });
                outcome($ctx, rf, $label, $p, path, $p.x.len(), r);
            }
        }
    }};
}

fn spy_log(ctx: &mut Ctx, l: tvmon::spy::SpyLog) {
    ctx.count_n("spy.ugets", l.ugets);
    ctx.count_n("spy.uslices", l.uslices);
    ctx.count_n("spy.titers", l.titers);
}

fn rolling_case(ctx: &mut Ctx, p: &P, native: bool) {
    let xf = enc_f64(p.x);
    let yf = enc_f64(p.y);
    let nulls = has_nulls(p.x);
    let v1 = valid1_fns();
    if native {
        // instrumented input, instrumented output
        let sf = SpyVecFast::new(xf.clone());
        run1!(ctx, p, v1.clone(), call_valid1, &sf, SpyVecFast<f64>, f64, SpyOut<f64>, f64, "spyfast->spyout");
        run1!(ctx, p, v1.clone(), call_valid1, &sf, SpyVecFast<f64>, f64, Vec<f64>, f64, "spyfast->vec");
        spy_log(ctx, sf.take_log());
        let sv = SpyVec::new(xf.clone());
        run1!(ctx, p, v1.clone(), call_valid1, &sv, SpyVec<f64>, f64, SpyOut<f64>, f64, "spy->spyout");
        spy_log(ctx, sv.take_log());
        let (sfy, svy) = (SpyVecFast::new(yf.clone()), SpyVec::new(yf.clone()));
        run2!(ctx, p, &sf, SpyVecFast<f64>, &sfy, SpyVecFast<f64>, SpyOut<f64>, "spyfast,spyfast->spyout");
        run2!(ctx, p, &sv, SpyVec<f64>, &svy, SpyVec<f64>, SpyOut<f64>, "spy,spy->spyout");
        run2!(ctx, p, &xf, Vec<f64>, &svy, SpyVec<f64>, SpyOut<f64>, "vec,spy->spyout");
        spy_log(ctx, sfy.take_log());
        spy_log(ctx, svy.take_log());
        if !nulls {
            run1!(ctx, p, PLAIN_FNS, call_plain1, &sf, SpyVecFast<f64>, f64, SpyOut<f64>, f64, "spyfast->spyout");
        }
        // real input, instrumented output (the real fast path writes into the spy buffer)
        run1!(ctx, p, v1.clone(), call_valid1, &xf, Vec<f64>, f64, SpyOut<f64>, f64, "vec->spyout");
        let a = nd_owned(&xf);
        run1!(ctx, p, v1.clone(), call_valid1, &a, Array1<f64>, f64, SpyOut<f64>, f64, "array1->spyout");
        let os = take_out_stats();
        ctx.count_n("spyout.usets", os.usets);
        ctx.count_n("spyout.buffers_verified", os.buffers_verified);
        ctx.count_n("spyout.slots_verified", os.slots_verified);
    }
    // window-slice drivers: unchecked slice accessor
    slice_drivers(ctx, p, native);
    // real containers on both sides: H2/H3 natively, the sanitizers otherwise
    run1!(ctx, p, v1.clone(), call_valid1, &xf, Vec<f64>, f64, Vec<f64>, f64, "vec->vec");
    run2!(ctx, p, &xf, Vec<f64>, &yf, Vec<f64>, Vec<f64>, "vec,vec->vec");
    if !nulls {
        run1!(ctx, p, PLAIN_FNS, call_plain1, &xf, Vec<f64>, f64, Vec<f64>, f64, "vec->vec");
    }
    let a = nd_owned(&xf);
    let ay = nd_owned(&yf);
    run1!(ctx, p, v1.clone(), call_valid1, &a, Array1<f64>, f64, Array1<f64>, f64, "array1->array1");
    run2!(ctx, p, &a, Array1<f64>, &ay, Array1<f64>, Array1<f64>, "array1,array1->array1");
    let dq = deque_of(&xf, p.w % (xf.len() + 1));
    let dy = deque_of(&yf, 1);
    run1!(ctx, p, v1.clone(), call_valid1, &dq, VecDeque<f64>, f64, VecDeque<f64>, f64, "deque->deque");
    run2!(ctx, p, &dq, VecDeque<f64>, &dy, VecDeque<f64>, Vec<f64>, "deque,deque->vec");
    run2!(ctx, p, &xf, Vec<f64>, &dy, VecDeque<f64>, VecDeque<f64>, "vec,deque->deque");
}

fn slice_drivers(ctx: &mut Ctx, p: &P, native: bool) {
    let xf = enc_f64(p.x);
    let yf = enc_f64(p.y);
    let (len, w) = (xf.len(), p.w);
    let sum = |s: &[f64]| s.iter().filter(|v| !v.is_nan()).sum::<f64>();
    let mut judge = |ctx: &mut Ctx, name: &str, label: &str, r: Result<Vec<f64>, String>| {
        ctx.evaluations += 1;
        match r {
            Ok(v) => {
                ctx.events += v.len() as u64;
                if let Some(i) = v.iter().position(|u| u.is_poison()) {
                    ctx.violation(&format!("{name}/uninit_output/{label}"), || format!("slot {i} never written; {name} [{label}] w={w} x={} y={}", fmt_series(p.x), fmt_series(p.y)));
                } else {
                    ctx.count("slice_driver_defined_results");
                    ctx.distinct(&format!("{name}|{label}|{len}|{w}|{}", yf.len() as i64 - len as i64));
                }
            },
            Err(e) if is_marked_panic(&e) => ctx.violation(&format!("{name}/memory/{}/{label}", panic_key(&e)), || format!("{e}; {name} [{label}] w={w} x={} y={}", fmt_series(p.x), fmt_series(p.y))),
            Err(_) => ctx.count("clean_panics.slice_drivers"),
        }
    };
    macro_rules! on {
        ($v:expr, $v2:expr, $V:ty, $O:ty, $label:expr) => {{
            let r = catch(|| $v.rolling_custom::<$O, f64, _>(w, sum, None).unwrap().titer().collect::<Vec<f64>>());
            judge(ctx, "rolling_custom", $label, r);
            let r = catch(|| {
                let mut b = <$O as Vec1<f64>>::uninit(len);
                assert!($v.rolling_custom::<$O, f64, _>(w, sum, Some(<$O as Vec1<f64>>::uninit_ref_mut(&mut b))).is_none());
                unsafe { b.assume_init() }.titer().collect::<Vec<f64>>()
            });
            judge(ctx, "rolling_custom(buf)", $label, r);
            let r = catch(|| {
                let mut b = <$O as Vec1<f64>>::uninit(len);
                $v.rolling_custom_to::<$O, f64, _>(w, sum, <$O as Vec1<f64>>::uninit_ref_mut(&mut b));
                unsafe { b.assume_init() }.titer().collect::<Vec<f64>>()
            });
            judge(ctx, "rolling_custom_to", $label, r);
            let r = catch(|| $v.rolling2_custom::<$O, f64, $V, f64, _>($v2, w, |a: &[f64], b: &[f64]| sum(a) - sum(b), None).unwrap().titer().collect::<Vec<f64>>());
            judge(ctx, "rolling2_custom", $label, r);
            let r = catch(|| $v.rolling_custom_iter(w, sum).collect::<Vec<f64>>());
            judge(ctx, "rolling_custom_iter", $label, r);
        }};
    }
    if native {
        let (sv, sy) = (SpyVec::new(xf.clone()), SpyVec::new(yf.clone()));
        on!(sv, &sy, SpyVec<f64>, SpyOut<f64>, "spy->spyout");
        spy_log(ctx, sv.take_log());
        spy_log(ctx, sy.take_log());
        let (sf, sfy) = (SpyVecFast::new(xf.clone()), SpyVecFast::new(yf.clone()));
        on!(sf, &sfy, SpyVecFast<f64>, SpyOut<f64>, "spyfast->spyout");
        spy_log(ctx, sf.take_log());
        spy_log(ctx, sfy.take_log());
    }
    on!(xf, &yf, Vec<f64>, Vec<f64>, "vec->vec");
}

/// ranking / partition / quantile kernels
fn kernel_case(ctx: &mut Ctx, rng: &mut Rng, x: &Series, native: bool) {
    let xf = enc_f64(x);
    let len = xf.len();
    let ks: Vec<usize> = (0..=len + 3).collect();
    let xs = fmt_series(x);
    let mut judge = |ctx: &mut Ctx, name: &str, label: &str, r: Result<usize, String>, what: String| {
        ctx.evaluations += 1;
        match r {
            Ok(n) => {
                ctx.events += n as u64;
                ctx.count("kernel_defined_results");
                ctx.distinct(&format!("{name}|{label}|{len}|{}", what.len() % 31));
            },
            Err(e) if is_marked_panic(&e) => ctx.violation(&format!("{name}/memory/{}/{label}", panic_key(&e)), || format!("{e}; {what} x={xs}")),
            Err(_) => ctx.count("clean_panics.kernels"),
        }
    };
    macro_rules! kernels_on {
        ($v:expr, $label:expr) => {{
            for (pct, rev) in [(false, false), (true, true)] {
                let r = catch(|| {
                    let o: Vec<f64> = $v.vrank(pct, rev);
                    assert!(!o.iter().any(|u| u.is_poison()), "VERIF-HOOK poison in vrank output");
                    o.len()
                });
                judge(ctx, "vrank", $label, r, format!("vrank(pct={pct},rev={rev})"));
                if native {
                    let r = catch(|| $v.vrank::<SpyOut<f64>, f64>(pct, rev).data.len());
                    judge(ctx, "vrank", concat!($label, "->spyout"), r, format!("vrank(pct={pct},rev={rev}) into SpyOut"));
                }
            }
            for &k in &ks {
                for (sort, rev) in [(false, false), (true, false), (true, true)] {
                    let r = catch(|| $v.vpartition(k, sort, rev).count());
                    judge(ctx, "vpartition", $label, r, format!("vpartition(k={k},sort={sort},rev={rev})"));
                    let r = catch(|| $v.varg_partition(k, sort, rev).count());
                    judge(ctx, "varg_partition", $label, r, format!("varg_partition(k={k},sort={sort},rev={rev})"));
                }
            }
            for q in [0.0, 0.1, 0.33, 0.5, 0.66, 0.9, 1.0] {
                for m in [QuantileMethod::Linear, QuantileMethod::Lower, QuantileMethod::Higher, QuantileMethod::MidPoint] {
                    let r = catch(|| $v.vquantile(q, m).map(|_| 1usize).unwrap_or(0));
                    judge(ctx, "vquantile", $label, r, format!("vquantile(q={q})"));
                }
            }
        }};
    }
    if native {
        let sv = SpyVec::new(xf.clone());
        kernels_on!(sv, "spy");
        spy_log(ctx, sv.take_log());
    }
    kernels_on!(xf, "vec");
    let a = nd_owned(&xf);
    kernels_on!(a, "array1");
    let step = *rng.pick(&[2isize, -1]);
    let base = nd_base(&xf, step, 1e9);
    let v = nd_view(&base, step);
    kernels_on!(v, "arrayview1");
    let dq = deque_of(&xf, rng.below(len + 1));
    kernels_on!(dq, "deque");
}

/// generic drivers with heap-owning outputs: an unwritten or doubly written slot becomes a drop of
/// garbage / a double free that the sanitizers see; also a panicking callback in the middle
fn string_driver_case(ctx: &mut Ctx, len: usize, w: usize, panic_at: Option<usize>) {
    let x: Vec<f64> = (0..len).map(|i| i as f64).collect();
    let a = nd_owned(&x);
    let d = format!("String-valued driver len={len} w={w} panic_at={panic_at:?}");
    let mut run = |ctx: &mut Ctx, name: &str, r: Result<usize, String>| {
        ctx.evaluations += 1;
        match r {
            Ok(n) => {
                ctx.events += n as u64;
                ctx.count("string_driver_ok");
                ctx.distinct(&format!("str|{name}|{len}|{w}|{panic_at:?}"));
            },
            Err(e) if is_marked_panic(&e) => ctx.violation(&format!("{name}/memory/{}", panic_key(&e)), || format!("{e}; {d}")),
            Err(e) if e.contains("injected") => ctx.count("string_driver_injected_panics"),
            Err(_) => ctx.count("clean_panics.string_drivers"),
        }
    };
    let mk = |i: usize, v: f64| -> String {
        if Some(i) == panic_at {
            panic!("injected callback panic");
        }
        format!("value-{v}-with-a-heap-allocation")
    };
    for path in [Path::Ret, Path::Buf] {
        let r = catch(|| {
            let mut n = 0usize;
            let f = |_: Option<f64>, v: f64| {
                n += 1;
                mk(n - 1, v)
            };
            let o: Vec<String> = match path {
                Path::Ret => x.rolling_apply::<Vec<String>, String, _>(w, f, None).unwrap(),
                Path::Buf => {
                    let mut b = <Vec<String> as Vec1<String>>::uninit(len);
                    x.rolling_apply_to::<Vec<String>, String, _>(w, f, <Vec<String> as Vec1<String>>::uninit_ref_mut(&mut b));
                    unsafe { b.assume_init() }
                },
            };
            o.iter().map(|s| s.len()).sum::<usize>()
        });
        run(ctx, "rolling_apply<String>", r);
        let r = catch(|| {
            let mut n = 0usize;
            let f = |_: Option<usize>, _: usize, v: f64| {
                n += 1;
                mk(n - 1, v)
            };
            let o: Array1<String> = a.rolling_apply_idx::<Array1<String>, String, _>(w, f, None).unwrap();
            o.iter().map(|s| s.len()).sum::<usize>()
        });
        run(ctx, "rolling_apply_idx<String>", r);
        let r = catch(|| {
            let mut n = 0usize;
            let f = |s: &[f64]| {
                n += 1;
                mk(n - 1, s.len() as f64)
            };
            let o: VecDeque<String> = x.rolling_custom::<VecDeque<String>, String, _>(w, f, None).unwrap();
            o.iter().map(|s| s.len()).sum::<usize>()
        });
        run(ctx, "rolling_custom<String>", r);
    }
}

fn main() {
    let mut ctx = Ctx::from_args("C10");
    let san = ctx.is_sanitizer_mode();
    let native = !san;
    let nmax = if san { ctx.budget(3, 5) } else { ctx.budget(7, 11) };
    for len in 0..=nmax {
        for w in 0..=len + 3 {
            let mut mps: Vec<Option<usize>> = vec![None];
            if san {
                mps.push(Some(w / 2));
                mps.push(Some(0));
            } else {
                mps.extend((0..=w).map(Some));
            }
            for mp in mps {
                if san && !ctx.every(2) {
                    let _ = ctx.sweep_case();
                    continue;
                }
                if let Some(mut rng) = ctx.sweep_case() {
                    // caller-supplied VecDeque buffers: half of the cases with a rotated (physically wrapped) ring buffer
                    tvmon::rollreg::BUF_ROT.with(|r| r.set(if rng.chance(0.5) { 0 } else { 1 + rng.below(8) }));
                    let pat = *rng.pick(&NULL_PATTERNS);
                    let c = *rng.pick(&ALL_CLASSES);
                    let x = series(&mut rng, c, pat, len);
                    // second series: equal length mostly, shorter / longer on purpose
                    let dl: i64 = *rng.pick(&[0, 0, 0, -1, -2, 1, 2]);
                    let ylen = (len as i64 + dl).max(0) as usize;
                    let (y, _, _) = random_series(&mut rng, &ALL_CLASSES, ylen);
                    if w == 0 {
                        ctx.count("cases.window0");
                    }
                    if ylen < len {
                        ctx.count("cases.second_series_shorter");
                    }
                    let p = P { x: &x, y: &y, w, mp };
                    rolling_case(&mut ctx, &p, native);
                }
            }
        }
    }
    let kmax = if san { ctx.budget(4, 7) } else { ctx.budget(9, 14) };
    for len in 0..=kmax {
        for pat in NULL_PATTERNS {
            if let Some(mut rng) = ctx.sweep_case() {
                // caller-supplied VecDeque buffers: half of the cases with a rotated (physically wrapped) ring buffer
                tvmon::rollreg::BUF_ROT.with(|r| r.set(if rng.chance(0.5) { 0 } else { 1 + rng.below(8) }));
                let c = *rng.pick(&ALL_CLASSES);
                let x = series(&mut rng, c, pat, len);
                kernel_case(&mut ctx, &mut rng, &x, native);
            }
        }
    }
    let smax = if san { ctx.budget(4, 6) } else { ctx.budget(6, 10) };
    for len in 0..=smax {
        for w in 0..=len + 2 {
            if ctx.sweep_case().is_some() {
                string_driver_case(&mut ctx, len, w, None);
                for k in 0..len {
                    string_driver_case(&mut ctx, len, w, Some(k));
                }
            }
        }
    }
    let nr = if san { ctx.cbudget(2, 8) } else { ctx.cbudget(300, 6000) };
    for _ in 0..nr {
        if let Some(mut rng) = ctx.random_case() {
            // caller-supplied VecDeque buffers: half of the cases with a rotated (physically wrapped) ring buffer
            tvmon::rollreg::BUF_ROT.with(|r| r.set(if rng.chance(0.5) { 0 } else { 1 + rng.below(8) }));
            let len = rng.range_usize(0, if san { 10 } else { 64 });
            let w = rng.range_usize(0, len + 3);
            let mp = if rng.chance(0.3) { None } else { Some(rng.range_usize(0, w)) };
            let (x, _, _) = random_series(&mut rng, &ALL_CLASSES, len);
            let dl: i64 = *rng.pick(&[0, 0, 0, -1, -3, 2]);
            let (y, _, _) = random_series(&mut rng, &ALL_CLASSES, (len as i64 + dl).max(0) as usize);
            let p = P { x: &x, y: &y, w, mp };
            rolling_case(&mut ctx, &p, native);
            kernel_case(&mut ctx, &mut rng, &x, native);
        }
    }
    std::process::exit(ctx.finish());
}
