//! C11 — aggregations equal their textbook definitions over the non-null elements.
use std::collections::VecDeque;

use tevec::prelude::{AggBasic, AggValidBasic, AggValidExt, IsNone, Number, TIter, Vec1View};
use tvmon::backends::*;
use tvmon::ctx::{Ctx, catch, panic_key};
use tvmon::model::*;
use tvmon::rng::Rng;
use tvmon::wl::*;

/// oracle helpers, kept in a module that does not import tevec's blanket aggregation traits
mod orc {
    pub fn first(v: &[f64]) -> Option<f64> {
        <[f64]>::first(v).copied()
    }
    pub fn last(v: &[f64]) -> Option<f64> {
        <[f64]>::last(v).copied()
    }
    pub fn any(v: &[bool]) -> bool {
        Iterator::any(&mut v.iter(), |b| *b)
    }
    pub fn all(v: &[bool]) -> bool {
        Iterator::all(&mut v.iter(), |b| *b)
    }
}

struct Cx<'a> {
    label: &'a str,
    x: &'a Series,
    y: &'a Series,
    mp: usize,
}

impl Cx<'_> {
    fn d(&self, f: &str) -> String {
        format!("{f} [{}] min_periods={} x={} y={}", self.label, self.mp, fmt_series(self.x), fmt_series(self.y))
    }
}

fn check(ctx: &mut Ctx, cx: &Cx, name: &str, r: Result<Obs, String>, e: Expect) {
    ctx.evaluations += 1;
    ctx.events += 1;
    match r {
        Err(p) => ctx.violation(&format!("{name}/panic/{}", panic_key(&p)), || format!("{p}; {}", cx.d(name))),
        Ok(o) => match e.check(o, 0.0) {
            Verdict::Ok => {
                ctx.count(&format!("ok.{name}"));
                if matches!(e, Expect::Null | Expect::NullTag(_)) {
                    ctx.count(&format!("null.{name}"));
                } else {
                    if cx.x.len() > 3 {
                        ctx.sample(|| format!("{} = {:?}, definition gives {}", cx.d(name), o, e.describe()));
                    }
                    ctx.distinct(&format!("{name}|{}|{}|{}", cx.label, cx.x.len().min(30), cx.mp));
                    if let Some(r) = e.ratio(o) {
                        ctx.maximum(&format!("err_over_bound.{name}"), r, || format!("len={}", cx.x.len()));
                    }
                }
            },
            Verdict::OkUnconstrained => ctx.count(&format!("unconstrained.{name}")),
            Verdict::NullMismatch => {
                let k = if o.null { "unexpected_null" } else { "missing_null" };
                let nvalid = cx.x.iter().flatten().count();
                let tag = if nvalid <= 4 { format!("n={nvalid}") } else { "n>4".into() };
                ctx.violation(&format!("{name}/{k}/{tag}"), || format!("observed {:?}, expected {}; {}", o, e.describe(), cx.d(name)))
            },
            Verdict::ValueMismatch => ctx.violation(&format!("{name}/value"), || format!("observed {:?}, expected {}; {}", o, e.describe(), cx.d(name))),
        },
    }
}

fn of(v: Option<f64>) -> Obs {
    match v {
        Some(x) if !x.is_nan() => Obs::val(x),
        Some(_) => Obs::null(),
        None => Obs::null(),
    }
}
fn ofu(v: Option<usize>) -> Obs {
    v.map(|u| Obs::val(u as f64)).unwrap_or(Obs::null())
}
fn exact_opt(v: Option<f64>) -> Expect {
    v.map(Expect::Exact).unwrap_or(Expect::Null)
}

/// null-aware aggregations of one iterable source; `mk` recreates the iterator
fn valid_aggs<I, T>(ctx: &mut Ctx, cx: &Cx, mk: &dyn Fn() -> I, mky: &dyn Fn() -> I)
where
    I: IntoIterator<Item = T>,
    I::IntoIter: DoubleEndedIterator,
    T: IsNone,
    T::Inner: Number + PartialEq,
{
    let vals: Vec<f64> = cx.x.iter().flatten().copied().collect();
    let n = vals.len();
    let len = cx.x.len();
    let e = ErrCtx::aggregate(n);
    let mp = cx.mp;
    let f64of = |t: T| t.to_opt().map(|v| v.f64());

    check(ctx, cx, "count_valid", catch(|| Obs::val(mk().count_valid() as f64)), Expect::Exact(n as f64));
    check(ctx, cx, "count_none", catch(|| Obs::val(mk().count_none() as f64)), Expect::Exact((len - n) as f64));
    check(ctx, cx, "vfirst", catch(|| of(mk().vfirst().and_then(f64of))), exact_opt(orc::first(&vals)));
    check(ctx, cx, "vlast", catch(|| of(mk().vlast().and_then(f64of))), exact_opt(orc::last(&vals)));
    // vsum accumulates in the element type: exact on integer-valued data, bound otherwise
    let sum_e = if n == 0 { Expect::Null } else { moment_expect(Moment::Sum, &vals, &ErrCtx { exact: is_exact_grid(cx.x), ..e }) };
    check(ctx, cx, "vsum", catch(|| of(mk().vsum().map(|v| v.f64()))), sum_e);
    check(ctx, cx, "vmean", catch(|| of(Some(mk().vmean()))), if n == 0 { Expect::Null } else { moment_expect(Moment::Mean, &vals, &e) });
    let var_e = |which: Moment| if n < mp.max(2) { Expect::Null } else { moment_expect(which, &vals, &e) };
    check(ctx, cx, "vvar", catch(|| of(Some(mk().vvar(mp)))), var_e(Moment::Var));
    check(ctx, cx, "vstd", catch(|| of(Some(mk().vstd(mp)))), var_e(Moment::Std));
    check(ctx, cx, "vmean_var.mean", catch(|| of(Some(mk().vmean_var(mp).0))), if n < mp.max(2) { Expect::Any("mean part below the variance's minimum") } else { moment_expect(Moment::Mean, &vals, &e) });
    check(ctx, cx, "vmean_var.var", catch(|| of(Some(mk().vmean_var(mp).1))), var_e(Moment::Var));
    check(ctx, cx, "vskew", catch(|| of(Some(mk().vskew(mp)))), if n < mp.max(3) { Expect::Null } else { moment_expect(Moment::Skew, &vals, &e) });
    check(ctx, cx, "vkurt", catch(|| of(Some(mk().vkurt(mp)))), if n < mp.max(4) { Expect::Null } else { moment_expect(Moment::Kurt, &vals, &e) });
    let mn = vals.iter().cloned().fold(f64::INFINITY, f64::min);
    let mx = vals.iter().cloned().fold(f64::NEG_INFINITY, f64::max);
    check(ctx, cx, "vmin", catch(|| of(mk().vmin().map(|v| v.f64()))), if n == 0 { Expect::Null } else { Expect::Exact(mn) });
    check(ctx, cx, "vmax", catch(|| of(mk().vmax().map(|v| v.f64()))), if n == 0 { Expect::Null } else { Expect::Exact(mx) });
    let first_pos = |target: f64| cx.x.iter().position(|v| *v == Some(target)).map(|p| p as f64);
    check(ctx, cx, "vargmin", catch(|| ofu(mk().vargmin())), if n == 0 { Expect::Null } else { exact_opt(first_pos(mn)) });
    check(ctx, cx, "vargmax", catch(|| ofu(mk().vargmax())), if n == 0 { Expect::Null } else { exact_opt(first_pos(mx)) });
    // two-series: pairwise-complete observations
    let (mut pa, mut pb) = (Vec::new(), Vec::new());
    for (a, b) in cx.x.iter().zip(cx.y.iter()) {
        if let (Some(a), Some(b)) = (a, b) {
            pa.push(*a);
            pb.push(*b);
        }
    }
    let np = pa.len();
    let pe = ErrCtx::aggregate(np);
    let cov_e = if np < mp.max(2) { Expect::Null } else { pair_expect(Pair::Cov, &pa, &pb, &pe, (0.0, 0.0)) };
    check(ctx, cx, "vcov", catch(|| of(mk().vcov(mky(), mp).to_opt())), cov_e);
    let corr_e = if np < mp.max(2) { Expect::Null } else { pair_expect(Pair::Corr, &pa, &pb, &pe, (0.0, 0.0)) };
    check(ctx, cx, "vcorr_pearson", catch(|| of(Some(mk().vcorr_pearson::<f64, _, _>(mky(), mp)))), corr_e);
}

/// plain aggregations (no notion of null): driven with null-free data only
fn plain_aggs<I, T>(ctx: &mut Ctx, cx: &Cx, mk: &dyn Fn() -> I, target: T)
where
    I: IntoIterator<Item = T>,
    I::IntoIter: DoubleEndedIterator,
    T: Number,
{
    let vals: Vec<f64> = cx.x.iter().map(|v| v.unwrap()).collect();
    let n = vals.len();
    let e = ErrCtx { exact: is_exact_grid(cx.x), ..ErrCtx::aggregate(n) };
    check(ctx, cx, "first", catch(|| of(mk().first().map(|v| v.f64()))), exact_opt(orc::first(&vals)));
    check(ctx, cx, "last", catch(|| of(mk().last().map(|v| v.f64()))), exact_opt(orc::last(&vals)));
    check(ctx, cx, "sum", catch(|| of(AggBasic::sum(mk()).map(|v| v.f64()))), if n == 0 { Expect::Null } else { moment_expect(Moment::Sum, &vals, &e) });
    check(ctx, cx, "mean", catch(|| of(mk().mean())), if n == 0 { Expect::Null } else { moment_expect(Moment::Mean, &vals, &e) });
    let mn = vals.iter().cloned().fold(f64::INFINITY, f64::min);
    let mx = vals.iter().cloned().fold(f64::NEG_INFINITY, f64::max);
    check(ctx, cx, "min", catch(|| of(AggBasic::min(mk()).map(|v| v.f64()))), if n == 0 { Expect::Null } else { Expect::Exact(mn) });
    check(ctx, cx, "max", catch(|| of(AggBasic::max(mk()).map(|v| v.f64()))), if n == 0 { Expect::Null } else { Expect::Exact(mx) });
    let fp = |t: f64| vals.iter().position(|v| *v == t).map(|p| p as f64);
    check(ctx, cx, "argmin", catch(|| ofu(mk().argmin())), if n == 0 { Expect::Null } else { exact_opt(fp(mn)) });
    check(ctx, cx, "argmax", catch(|| ofu(mk().argmax())), if n == 0 { Expect::Null } else { exact_opt(fp(mx)) });
    let tv = target.f64();
    check(ctx, cx, "count_value", catch(|| Obs::val(mk().count_value(target) as f64)), Expect::Exact(vals.iter().filter(|v| **v == tv).count() as f64));
}

fn masks_and_bools(ctx: &mut Ctx, rng: &mut Rng, cx: &Cx) {
    let x = cx.x;
    let len = x.len();
    let xf = enc_f64(x);
    let mask: Vec<Option<bool>> = (0..len).map(|_| if rng.chance(0.15) { None } else { Some(rng.chance(0.5)) }).collect();
    let sel: Vec<f64> = x.iter().zip(&mask).filter_map(|(v, m)| if *m == Some(true) { *v } else { None }).collect();
    let n = sel.len();
    let e = ErrCtx { exact: is_exact_grid(x), ..ErrCtx::aggregate(n) };
    let mp = cx.mp;
    let sum_e = if n == 0 { Expect::OneOf(vec![Expect::Exact(0.0), Expect::Null]) } else { moment_expect(Moment::Sum, &sel, &e) };
    check(ctx, cx, "n_vsum_filter.n", catch(|| Obs::val(xf.titer().n_vsum_filter(mask.titer()).0 as f64)), Expect::Exact(n as f64));
    check(ctx, cx, "n_vsum_filter.sum", catch(|| of(Some(xf.titer().n_vsum_filter(mask.titer()).1))), sum_e.clone());
    check(ctx, cx, "n_sum_filter", catch(|| of(xf.titer().n_sum_filter(mask.titer()))), if n == 0 { Expect::Null } else { sum_e });
    let mean_e = if n < mp || n == 0 {
        if n < mp { Expect::Null } else { Expect::Any("mean of an empty selection") }
    } else {
        moment_expect(Moment::Mean, &sel, &e)
    };
    check(ctx, cx, "vmean_filter", catch(|| of(Some(xf.titer().vmean_filter(mask.titer(), mp)))), mean_e);
    // plain bool mask through i32 0/1 as well
    let bmask: Vec<bool> = mask.iter().map(|m| m.unwrap_or(false)).collect();
    check(ctx, cx, "n_vsum_filter.n(bool mask)", catch(|| Obs::val(xf.titer().n_vsum_filter(bmask.titer()).0 as f64)), Expect::Exact(n as f64));
    // booleans
    let bs: Vec<Option<bool>> = (0..len).map(|i| x[i].map(|v| v > 0.0)).collect();
    let valid_b: Vec<bool> = bs.iter().flatten().copied().collect();
    let plain_b: Vec<bool> = valid_b.clone();
    let b2f = |b: bool| if b { 1.0 } else { 0.0 };
    check(ctx, cx, "vany", catch(|| Obs::val(b2f(bs.titer().vany()))), Expect::Exact(b2f(orc::any(&valid_b))));
    check(ctx, cx, "vall", catch(|| Obs::val(b2f(bs.titer().vall()))), Expect::Exact(b2f(orc::all(&valid_b))));
    check(ctx, cx, "any", catch(|| Obs::val(b2f(AggBasic::any(plain_b.titer())))), Expect::Exact(b2f(orc::any(&plain_b))));
    check(ctx, cx, "all", catch(|| Obs::val(b2f(AggBasic::all(plain_b.titer())))), Expect::Exact(b2f(orc::all(&plain_b))));
    // vcount_value incl. counting the null itself
    let xo = enc_opt_f64(x);
    let tgt = if len > 0 { x[rng.below(len)] } else { Some(1.0) };
    let want = x.iter().filter(|v| **v == tgt).count() as f64;
    check(ctx, cx, "vcount_value", catch(|| Obs::val(xo.titer().vcount_value(tgt) as f64)), Expect::Exact(want));
    check(ctx, cx, "vcount_value(nan enc)", catch(|| Obs::val(xf.titer().vcount_value(tgt.unwrap_or(f64::NAN)) as f64)), Expect::Exact(want));
}

/// symmetric aggregations are invariant under permutation
fn permutation(ctx: &mut Ctx, rng: &mut Rng, cx: &Cx) {
    let mut idx: Vec<usize> = (0..cx.x.len()).collect();
    rng.shuffle(&mut idx);
    let px: Series = idx.iter().map(|i| cx.x[*i]).collect();
    let py: Series = idx.iter().map(|i| cx.y[*i]).collect();
    let (a, b) = (enc_f64(cx.x), enc_f64(&px));
    let (ya, yb) = (enc_f64(cx.y), enc_f64(&py));
    let mp = cx.mp;
    let exact: [(&str, Box<dyn Fn(&Vec<f64>, &Vec<f64>) -> f64>); 4] = [
        ("count_valid", Box::new(|v, _| v.titer().count_valid() as f64)),
        ("vmin", Box::new(|v, _| v.titer().vmin().unwrap_or(f64::NAN))),
        ("vmax", Box::new(|v, _| v.titer().vmax().unwrap_or(f64::NAN))),
        ("count_none", Box::new(|v, _| v.titer().count_none() as f64)),
    ];
    for (name, f) in exact.iter() {
        ctx.evaluations += 1;
        let (p, q) = (f(&a, &ya), f(&b, &yb));
        if !(p == q || (p.is_nan() && q.is_nan())) {
            ctx.violation(&format!("{name}/permutation"), || format!("{p:?} vs {q:?} after permuting; {} permuted x={}", cx.d(name), fmt_series(&px)));
        } else {
            ctx.count("permutation_ok");
        }
    }
    let approx: [(&str, Box<dyn Fn(&Vec<f64>, &Vec<f64>) -> f64>, Box<dyn Fn(&[f64], &ErrCtx) -> Expect>); 5] = [
        ("vsum", Box::new(|v, _| v.titer().vsum().unwrap_or(f64::NAN)), Box::new(|vals, e| moment_expect(Moment::Sum, vals, e))),
        ("vmean", Box::new(|v, _| v.titer().vmean()), Box::new(|vals, e| moment_expect(Moment::Mean, vals, e))),
        ("vvar", Box::new(move |v, _| v.titer().vvar(mp)), Box::new(|vals, e| moment_expect(Moment::Var, vals, e))),
        ("vskew", Box::new(move |v, _| v.titer().vskew(mp)), Box::new(|vals, e| moment_expect(Moment::Skew, vals, e))),
        ("vkurt", Box::new(move |v, _| v.titer().vkurt(mp)), Box::new(|vals, e| moment_expect(Moment::Kurt, vals, e))),
    ];
    let vals: Vec<f64> = cx.x.iter().flatten().copied().collect();
    let e = ErrCtx::aggregate(vals.len());
    for (name, f, ex) in approx.iter() {
        ctx.evaluations += 1;
        let (p, q) = (f(&a, &ya), f(&b, &yb));
        if p.is_nan() != q.is_nan() {
            ctx.violation(&format!("{name}/permutation_null"), || format!("{p:?} vs {q:?} after permuting; {}", cx.d(name)));
            continue;
        }
        if p.is_nan() {
            continue;
        }
        let hw = match ex(&vals, &e) {
            Expect::Approx { hw, .. } => Some(hw),
            Expect::Exact(_) => Some(0.0),
            _ => None,
        };
        match hw {
            Some(h) if (p - q).abs() > 2.0 * h => ctx.violation(&format!("{name}/permutation"), || format!("{p:?} vs {q:?} after permuting, bound {:e}; {}", 2.0 * h, cx.d(name))),
            Some(_) => ctx.count("permutation_ok"),
            None => ctx.count("permutation_unconstrained"),
        }
    }
}

fn run_case(ctx: &mut Ctx, rng: &mut Rng, x: &Series, y: &Series, mp: usize) {
    let nulls = has_nulls(x);
    let int_valued = int_valued(&[x, y]);
    let (xf, yf) = (enc_f64(x), enc_f64(y));
    let (xo, yo) = (enc_opt_f64(x), enc_opt_f64(y));
    macro_rules! cxl {
        ($l:expr) => {
            Cx { label: $l, x, y, mp }
        };
    }
    valid_aggs(ctx, &cxl!("vec<f64> owned"), &|| xf.clone(), &|| yf.clone());
    valid_aggs(ctx, &cxl!("vec<f64>.titer()"), &|| xf.titer(), &|| yf.titer());
    valid_aggs(ctx, &cxl!("vec<opt f64>.titer()"), &|| xo.titer(), &|| yo.titer());
    valid_aggs(ctx, &cxl!("vec<opt f64> owned"), &|| xo.clone(), &|| yo.clone());
    {
        let (ox, oy) = (xf.opt(), yf.opt());
        valid_aggs(ctx, &cxl!("vec<f64>.opt().titer()"), &|| ox.titer(), &|| oy.titer());
    }
    let (dx, dy) = (deque_of(&xf, rng.below(x.len() + 1)), deque_of(&yf, 0));
    valid_aggs(ctx, &cxl!("deque<f64>.titer()"), &|| dx.titer(), &|| dy.titer());
    let (ax, ay) = (nd_owned(&xf), nd_owned(&yf));
    valid_aggs(ctx, &cxl!("array1<f64>.titer()"), &|| ax.titer(), &|| ay.titer());
    if int_valued {
        let (xi, yi) = (enc_opt_i32(x), enc_opt_i32(y));
        valid_aggs(ctx, &cxl!("vec<opt i32>.titer()"), &|| xi.titer(), &|| yi.titer());
        if !nulls && !has_nulls(y) {
            let (xi, yi) = (enc_i32(x), enc_i32(y));
            valid_aggs(ctx, &cxl!("vec<i32>.titer()"), &|| xi.titer(), &|| yi.titer());
            let t = if x.is_empty() { 0 } else { xi[rng.below(xi.len())] };
            plain_aggs(ctx, &cxl!("vec<i32>.titer()"), &|| xi.titer(), t);
            let xl = enc_i64(x);
            plain_aggs(ctx, &cxl!("vec<i64> owned"), &|| xl.clone(), t as i64);
        }
    }
    if !nulls {
        let t = if x.is_empty() { 0.5 } else { xf[rng.below(xf.len())] };
        plain_aggs(ctx, &cxl!("vec<f64>.titer()"), &|| xf.titer(), t);
        plain_aggs(ctx, &cxl!("deque<f64>.titer()"), &|| dx.titer(), t);
        let dqo: VecDeque<f64> = dx.clone();
        plain_aggs(ctx, &cxl!("deque<f64> owned"), &|| dqo.clone(), t);
    }
    masks_and_bools(ctx, rng, &cxl!("vec<f64>.titer() + mask"));
    permutation(ctx, rng, &cxl!("vec<f64>.titer()"));
}

fn main() {
    let mut ctx = Ctx::from_args("C11");
    // degenerate sizes and ties on purpose
    let nmax = ctx.budget(12, 20);
    for len in 0..=nmax {
        for pat in NULL_PATTERNS {
            for mp in 0..=(len + 1).min(6) {
                if let Some(mut rng) = ctx.sweep_case() {
                    let c = *rng.pick(&ALL_CLASSES);
                    let x = series(&mut rng, c, pat, len);
                    let (y, _, _) = random_series(&mut rng, &ALL_CLASSES, len);
                    run_case(&mut ctx, &mut rng, &x, &y, mp);
                }
            }
        }
    }
    let nr = ctx.cbudget(5000, 100000);
    for _ in 0..nr {
        if let Some(mut rng) = ctx.random_case() {
            let len = rng.range_usize(0, 200);
            let (x, _, _) = random_series(&mut rng, &ALL_CLASSES, len);
            let (y, _, _) = random_series(&mut rng, &ALL_CLASSES, len);
            let mp = if rng.chance(0.8) { rng.range_usize(0, 5) } else { rng.range_usize(0, len + 1) };
            run_case(&mut ctx, &mut rng, &x, &y, mp);
        }
    }
    std::process::exit(ctx.finish());
}
