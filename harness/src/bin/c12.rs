//! C12 — quantiles, percentile ranks, ranks and partitions are true order statistics.
use tevec::prelude::{AggValidExt, MapValidVec, PercentileOfMethod, QuantileMethod, TIter, VecAggValidExt};
use tvmon::ctx::{Ctx, catch, is_marked_panic, panic_key};
use tvmon::model::{F64_EPS, avg_rank, sorted};
use tvmon::rng::Rng;
use tvmon::wl::*;

fn feq(a: f64, b: f64, tol: f64) -> bool {
    (a.is_nan() && b.is_nan()) || (a - b).abs() <= tol
}

fn viol_panic(ctx: &mut Ctx, name: &str, p: &str, d: String) {
    let kind = if is_marked_panic(p) { "memory" } else { "panic" };
    ctx.violation(&format!("{name}/{kind}/{}", panic_key(p)), || format!("{p}; {d}"));
}

/// candidates for the q-quantile given the exact rational index (n-1)*a/b
fn quantile_candidates(s: &[f64], a: u64, b: u64, m: QuantileMethod) -> (Vec<f64>, bool) {
    let n = s.len();
    let num = (n as u64 - 1) * a; // index = num / b
    let fl = (num / b) as usize;
    let rem = num % b;
    let val = |i: usize, j: usize, frac: f64| -> f64 {
        match m {
            QuantileMethod::Linear => s[i] + (s[j] - s[i]) * frac,
            QuantileMethod::Lower => s[i],
            QuantileMethod::Higher => s[j],
            QuantileMethod::MidPoint => (s[i] + s[j]) / 2.0,
        }
    };
    if rem == 0 && b.is_power_of_two() {
        // q = a/b is exactly representable and (n-1)q is exactly an integer, in real and in floating
        // point arithmetic alike (also for 1-q): no rounding is involved, the quantile IS s[k] for
        // every interpolation method. (DESIGN 5.5's either-neighbour tolerance is for indices that are
        // only within rounding distance of an integer.)
        (vec![s[fl]], true)
    } else if rem == 0 {
        // an integer index reached through a q that is not exactly representable: the floating index
        // may fall on either side (DESIGN 5.5)
        let k = fl;
        let mut c = vec![s[k]];
        if k > 0 {
            c.push(val(k - 1, k, 1.0));
            c.push(val(k - 1, k, 0.0));
        }
        if k + 1 < n {
            c.push(val(k, k + 1, 0.0));
            c.push(val(k, k + 1, 1.0));
        }
        // Lower/Higher/MidPoint on a neighbouring pair are only acceptable when the float index
        // really is within rounding distance; for an exact integer it is (a/b is not exact in binary)
        (c, true)
    } else {
        let frac = rem as f64 / b as f64;
        (vec![val(fl, fl + 1, frac)], false)
    }
}

fn quantile_case(ctx: &mut Ctx, rng: &mut Rng, x: &Series, label: &str, call: &dyn Fn(f64, QuantileMethod) -> Result<Result<f64, String>, String>) {
    let vals: Vec<f64> = x.iter().flatten().copied().collect();
    let n = vals.len();
    let s = sorted(&vals);
    let xs = fmt_series(x);
    let mut grid: Vec<(u64, u64)> = vec![(0, 1), (1, 1), (1, 2), (1, 4), (3, 4), (1, 3), (2, 3), (1, 10), (9, 10), (1, 100), (99, 100), (22, 100), (78, 100), (1, 5), (4, 5)];
    if n >= 2 {
        // (n-1) q exactly an integer
        for k in 0..n {
            grid.push((k as u64, n as u64 - 1));
        }
    }
    for _ in 0..4 {
        let b = *rng.pick(&[7u64, 16, 64, 1000]);
        grid.push((rng.below(b as usize + 1) as u64, b));
    }
    for (a, b) in grid {
        let q = a as f64 / b as f64;
        for (mi, m) in [QuantileMethod::Linear, QuantileMethod::Lower, QuantileMethod::Higher, QuantileMethod::MidPoint].into_iter().enumerate() {
            ctx.evaluations += 1;
            ctx.events += 1;
            let d = || format!("vquantile(q={a}/{b}, method#{mi}) [{label}] x={xs}");
            match call(q, m) {
                Err(p) => viol_panic(ctx, "vquantile", &p, d()),
                Ok(Err(e)) => ctx.violation("vquantile/unexpected_err", || format!("Err({e}) for q in [0,1]; {}", d())),
                Ok(Ok(v)) => {
                    if n == 0 {
                        if !v.is_nan() {
                            ctx.violation("vquantile/missing_null", || format!("{v} for a series without valid element; {}", d()));
                        } else {
                            ctx.count("quantile_null_ok");
                        }
                        continue;
                    }
                    if v.is_nan() {
                        ctx.violation(&format!("vquantile/unexpected_null/n={}", n.min(3)), || format!("null although {n} valid elements exist; {}", d()));
                        continue;
                    }
                    let (cands, near) = quantile_candidates(&s, a, b, m);
                    let scale = s[0].abs().max(s[n - 1].abs());
                    let tol = 64.0 * F64_EPS * scale * (n as f64).max(4.0);
                    if cands.iter().any(|c| feq(*c, v, tol)) {
                        if n > 3 {
                            ctx.sample(|| format!("{} = {v} (sorted valid elements {s:?}, candidates {cands:?})", d()));
                        }
                        ctx.count(if near { "quantile_ok_integer_index" } else { "quantile_ok" });
                        ctx.distinct(&format!("q|{label}|{n}|{a}/{b}|{mi}"));
                    } else {
                        ctx.violation(&format!("vquantile/value/method{mi}"), || format!("observed {v}, expected one of {cands:?} (sorted valid {s:?}); {}", d()));
                    }
                },
            }
        }
    }
    // q outside [0,1] must be an error
    for q in [-0.1, 1.0001, f64::NAN, 2.0] {
        ctx.evaluations += 1;
        match call(q, QuantileMethod::Linear) {
            Ok(Err(_)) => ctx.count("quantile_err_ok"),
            Ok(Ok(v)) => ctx.violation("vquantile/missing_err", || format!("vquantile(q={q}) returned Ok({v}); x={xs}")),
            Err(p) => viol_panic(ctx, "vquantile", &p, format!("q={q} x={xs}")),
        }
    }
}

fn percentile_case(ctx: &mut Ctx, rng: &mut Rng, x: &Series) {
    let vals: Vec<f64> = x.iter().flatten().copied().collect();
    let total = vals.len() as f64;
    let xf = enc_f64(x);
    let xo = enc_opt_f64(x);
    let xs = fmt_series(x);
    let mut scores: Vec<Option<f64>> = vec![None, Some(0.0), Some(1e9), Some(-1e9)];
    for _ in 0..4 {
        if !x.is_empty() {
            scores.push(x[rng.below(x.len())]);
        }
        scores.push(Some(rng.range_i64(-9, 9) as f64 / 2.0));
    }
    for sc in scores {
        for (mi, m) in [PercentileOfMethod::Rank, PercentileOfMethod::Weak, PercentileOfMethod::Strict].into_iter().enumerate() {
            let expect = match sc {
                None => f64::NAN,
                Some(_) if vals.is_empty() => f64::NAN,
                Some(s) => {
                    let less = vals.iter().filter(|v| **v < s).count() as f64;
                    let eq = vals.iter().filter(|v| **v == s).count() as f64;
                    match mi {
                        0 => {
                            if eq > 1.0 {
                                ((less + 1.0) + (less + eq)) * 0.5 / total
                            } else {
                                (less + eq) / total
                            }
                        },
                        1 => (less + eq) / total,
                        _ => less / total,
                    }
                },
            };
            for (enc, r) in [
                ("nan", catch(|| xf.titer().vpercentile_of(sc.unwrap_or(f64::NAN), m))),
                ("opt", catch(|| xo.titer().vpercentile_of(sc, m))),
            ] {
                ctx.evaluations += 1;
                ctx.events += 1;
                match r {
                    Err(p) => viol_panic(ctx, "vpercentile_of", &p, format!("score={sc:?} x={xs}")),
                    Ok(v) => {
                        if feq(v, expect, 4.0 * F64_EPS) {
                            ctx.count("percentile_ok");
                            if !v.is_nan() {
                                ctx.distinct(&format!("p|{enc}|{}|{mi}|{}", vals.len(), (expect * 64.0) as i64));
                            }
                        } else {
                            ctx.violation(&format!("vpercentile_of/value/method{mi}"), || format!("observed {v}, expected {expect}; score={sc:?} method#{mi} encoding={enc} x={xs}"));
                        }
                    },
                }
            }
        }
    }
}

fn rank_case(ctx: &mut Ctx, x: &Series) {
    let vals: Vec<f64> = x.iter().flatten().copied().collect();
    let n = vals.len();
    let xf = enc_f64(x);
    let xo = enc_opt_f64(x);
    let xs = fmt_series(x);
    for (pct, rev) in [(false, false), (true, false), (false, true), (true, true)] {
        let expect: Vec<Option<f64>> = x
            .iter()
            .map(|v| {
                v.map(|c| {
                    let asc = avg_rank(c, &vals);
                    let r = if rev { (n + 1) as f64 - asc } else { asc };
                    if pct { r / n as f64 } else { r }
                })
            })
            .collect();
        let runs: [(&str, Result<Vec<Option<f64>>, String>); 3] = [
            ("vec<f64>->vec<f64>", catch(|| xf.vrank::<Vec<f64>, f64>(pct, rev).into_iter().map(|v| if v.is_nan() { None } else { Some(v) }).collect())),
            ("vec<opt f64>->vec<opt f64>", catch(|| xo.vrank::<Vec<Option<f64>>, Option<f64>>(pct, rev))),
            ("vec<f64>->vec<opt f64>", catch(|| xf.vrank::<Vec<Option<f64>>, Option<f64>>(pct, rev))),
        ];
        for (label, r) in runs {
            ctx.evaluations += 1;
            let d = || format!("vrank(pct={pct}, rev={rev}) [{label}] x={xs}");
            match r {
                Err(p) => viol_panic(ctx, "vrank", &p, d()),
                Ok(v) => {
                    ctx.events += v.len() as u64;
                    if v.len() != x.len() {
                        ctx.violation("vrank/length", || format!("{} ranks for {} elements; {}", v.len(), x.len(), d()));
                        continue;
                    }
                    let mut ok = true;
                    for i in 0..v.len() {
                        let good = match (v[i], expect[i]) {
                            (None, None) => true,
                            (Some(a), Some(b)) => feq(a, b, 4.0 * F64_EPS * b.abs()),
                            _ => false,
                        };
                        if !good {
                            let k = match (v[i], expect[i]) {
                                (Some(_), None) => format!("rank_for_null/len={}", x.len().min(3)),
                                (None, Some(_)) => "null_for_valid".to_string(),
                                _ => "value".to_string(),
                            };
                            ctx.violation(&format!("vrank/{k}"), || format!("element {i}: observed {:?}, expected {:?}; {}", v[i], expect[i], d()));
                            ok = false;
                            break;
                        }
                    }
                    if ok {
                        ctx.count("rank_ok");
                        if n > 0 {
                            ctx.distinct(&format!("r|{label}|{}|{n}|{pct}|{rev}", x.len()));
                        }
                    }
                },
            }
        }
    }
}

fn partition_case(ctx: &mut Ctx, x: &Series) {
    let vals: Vec<f64> = x.iter().flatten().copied().collect();
    let n = vals.len();
    let asc = sorted(&vals);
    let xf = enc_f64(x);
    let xo = enc_opt_f64(x);
    let xs = fmt_series(x);
    for k in 0..=x.len() + 1 {
        for (sort, rev) in [(false, false), (true, false), (false, true), (true, true)] {
            let m = (k + 1).min(n);
            let mut want: Vec<f64> = if rev { asc.iter().rev().take(m).copied().collect() } else { asc.iter().take(m).copied().collect() };
            let d = |f: &str, label: &str| format!("{f}(k={k}, sort={sort}, rev={rev}) [{label}] x={xs}");
            // ---- values
            let runs: [(&str, Result<Vec<Option<f64>>, String>); 2] = [
                ("vec<f64>", catch(|| xf.vpartition(k, sort, rev).map(|v| if v.is_nan() { None } else { Some(v) }).collect())),
                ("vec<opt f64>", catch(|| xo.vpartition(k, sort, rev).collect())),
            ];
            for (label, r) in runs {
                ctx.evaluations += 1;
                match r {
                    Err(p) => viol_panic(ctx, "vpartition", &p, d("vpartition", label)),
                    Ok(v) => {
                        ctx.events += v.len() as u64;
                        if v.len() != k + 1 {
                            ctx.violation(&format!("vpartition/entry_count/sort={sort}"), || format!("{} entries, expected k+1 = {}; {}", v.len(), k + 1, d("vpartition", label)));
                            continue;
                        }
                        let real: Vec<f64> = v.iter().take_while(|e| e.is_some()).map(|e| e.unwrap()).collect();
                        if v[real.len()..].iter().any(|e| e.is_some()) {
                            ctx.violation("vpartition/padding_before_real", || format!("a real entry follows padding: {v:?}; {}", d("vpartition", label)));
                            continue;
                        }
                        let mut got = real.clone();
                        if !sort {
                            got.sort_by(|a, b| a.partial_cmp(b).unwrap());
                            if rev {
                                got.reverse();
                            }
                        }
                        want.sort_by(|a, b| a.partial_cmp(b).unwrap());
                        if rev {
                            want.reverse();
                        }
                        if got != want {
                            ctx.violation(&format!("vpartition/content/sort={sort}"), || format!("entries {v:?}, expected the values {want:?}{}; {}", if sort { " in this order" } else { "" }, d("vpartition", label)));
                            continue;
                        }
                        ctx.count("partition_ok");
                        if !real.is_empty() {
                            ctx.distinct(&format!("vp|{label}|{}|{n}|{k}|{sort}|{rev}", x.len()));
                        }
                    },
                }
            }
            // ---- indices
            for (label, r) in [
                ("vec<f64>", catch(|| xf.varg_partition(k, sort, rev).collect::<Vec<i32>>())),
                ("vec<opt f64>", catch(|| xo.varg_partition(k, sort, rev).collect::<Vec<i32>>())),
            ] {
                ctx.evaluations += 1;
                match r {
                    Err(p) => viol_panic(ctx, "varg_partition", &p, d("varg_partition", label)),
                    Ok(v) => {
                        ctx.events += v.len() as u64;
                        if v.len() != k + 1 {
                            ctx.violation(&format!("varg_partition/entry_count/sort={sort}"), || format!("{} entries, expected k+1 = {}; {}", v.len(), k + 1, d("varg_partition", label)));
                            continue;
                        }
                        let real: Vec<i32> = v.iter().take_while(|e| **e != -1).copied().collect();
                        if v[real.len()..].iter().any(|e| *e != -1) {
                            ctx.violation("varg_partition/padding_before_real", || format!("a real entry follows padding: {v:?}; {}", d("varg_partition", label)));
                            continue;
                        }
                        let mut seen = std::collections::HashSet::new();
                        let mut bad = None;
                        let mut got = Vec::new();
                        for &i in &real {
                            if i < 0 || i as usize >= x.len() {
                                bad = Some(format!("index {i} out of range"));
                                break;
                            }
                            if !seen.insert(i) {
                                bad = Some(format!("index {i} repeated"));
                                break;
                            }
                            match x[i as usize] {
                                None => {
                                    bad = Some(format!("index {i} refers to a null element"));
                                    break;
                                },
                                Some(val) => got.push(val),
                            }
                        }
                        if let Some(b) = bad {
                            let key = if b.contains("null") { "refers_to_null" } else { "bad_index" };
                            ctx.violation(&format!("varg_partition/{key}"), || format!("{b}: {v:?}; {}", d("varg_partition", label)));
                            continue;
                        }
                        if !sort {
                            got.sort_by(|a, b| a.partial_cmp(b).unwrap());
                            if rev {
                                got.reverse();
                            }
                        }
                        if got != want {
                            ctx.violation(&format!("varg_partition/content/sort={sort}"), || format!("indices {v:?} select {got:?}, expected {want:?}; {}", d("varg_partition", label)));
                            continue;
                        }
                        ctx.count("arg_partition_ok");
                        if !real.is_empty() {
                            ctx.distinct(&format!("ap|{label}|{}|{n}|{k}|{sort}|{rev}", x.len()));
                        }
                    },
                }
            }
        }
    }
}

fn run_case(ctx: &mut Ctx, rng: &mut Rng, x: &Series) {
    let xf = enc_f64(x);
    let xo = enc_opt_f64(x);
    quantile_case(ctx, rng, x, "vec<f64>", &|q, m| catch(|| xf.vquantile(q, m).map_err(|e| e.to_string())));
    quantile_case(ctx, rng, x, "vec<opt f64>", &|q, m| catch(|| xo.vquantile(q, m).map_err(|e| e.to_string())));
    if int_valued(&[x]) {
        let xi = enc_opt_i32(x);
        quantile_case(ctx, rng, x, "vec<opt i32>", &|q, m| catch(|| xi.vquantile(q, m).map_err(|e| e.to_string())));
    }
    // vmedian == q 0.5 linear
    ctx.evaluations += 1;
    match (catch(|| xf.vmedian()), catch(|| xf.vquantile(0.5, QuantileMethod::Linear).unwrap())) {
        (Ok(a), Ok(b)) if feq(a, b, 0.0) => ctx.count("median_ok"),
        (Ok(a), Ok(b)) => ctx.violation("vmedian/value", || format!("vmedian {a} != vquantile(0.5) {b}; x={}", fmt_series(x))),
        (Err(p), _) | (_, Err(p)) => viol_panic(ctx, "vmedian", &p, fmt_series(x)),
    }
    percentile_case(ctx, rng, x);
    rank_case(ctx, x);
    partition_case(ctx, x);
}

fn main() {
    let mut ctx = Ctx::from_args("C12");
    let san = ctx.is_sanitizer_mode();
    // emphasis: the only valid element not in first position, ties, tiny n
    let nmax = if san { ctx.budget(3, 5) } else { ctx.budget(9, 14) };
    for len in 0..=nmax {
        for pat in NULL_PATTERNS {
            for rep in 0..if san { 1 } else { 3 } {
                if let Some(mut rng) = ctx.sweep_case() {
                    let c = if rep == 0 { ValClass::Alphabet3 } else { *rng.pick(&ALL_CLASSES) };
                    let x = series(&mut rng, c, pat, len);
                    if pat == NullPat::SingleValid && len > 1 && x[0].is_none() {
                        ctx.count("single_valid_not_first");
                    }
                    run_case(&mut ctx, &mut rng, &x);
                }
            }
        }
    }
    let nr = if san { ctx.cbudget(2, 8) } else { ctx.cbudget(1500, 30000) };
    for _ in 0..nr {
        if let Some(mut rng) = ctx.random_case() {
            let len = rng.range_usize(0, if san { 8 } else { 40 });
            let (x, _, _) = random_series(&mut rng, &ALL_CLASSES, len);
            run_case(&mut ctx, &mut rng, &x);
        }
    }
    std::process::exit(ctx.finish());
}
