//! C13 — element-wise mapping operations follow their positional definitions.
use tevec::prelude::{MapBasic, MapValidBasic, MapValidVec, TIter};
use tvmon::backends::*;
use tvmon::ctx::{Ctx, catch, is_marked_panic, panic_key};
use tvmon::rng::Rng;
use tvmon::wl::*;

/// cap on items taken from a library iterator: a runaway iterator becomes a length violation, not an OOM
const CAP: usize = 200_000;

type O = Option<f64>;

fn same(a: &[O], b: &[O]) -> Option<usize> {
    if a.len() != b.len() {
        return Some(usize::MAX);
    }
    (0..a.len()).find(|&i| match (a[i], b[i]) {
        (None, None) => false,
        (Some(p), Some(q)) => !(p.to_bits() == q.to_bits() || (p == q)),
        _ => true,
    })
}

fn dec(v: Vec<f64>) -> Vec<O> {
    v.into_iter().map(|x| if x.is_nan() { None } else { Some(x) }).collect()
}

fn judge(ctx: &mut Ctx, name: &str, label: &str, d: &dyn Fn() -> String, got: Result<Vec<O>, String>, want: &[O]) {
    ctx.evaluations += 1;
    match got {
        Err(p) => {
            let k = if is_marked_panic(&p) { "memory" } else { "panic" };
            ctx.violation(&format!("{name}/{k}/{}", panic_key(&p)), || format!("{p}; {}", d()));
        },
        Ok(g) => {
            ctx.events += g.len() as u64;
            match same(&g, want) {
                None => {
                    ctx.count(&format!("ok.{name}"));
                    if g.iter().any(|v| v.is_some()) {
                        if g.len() > 3 {
                            ctx.sample(|| format!("{} -> {g:?} equals the positional definition", d()));
                        }
                        ctx.distinct(&format!("{name}|{label}|{}|{}", g.len(), d().len() % 211));
                    }
                },
                Some(usize::MAX) => ctx.violation(&format!("{name}/length"), || format!("{} elements returned for {} expected; {}", g.len(), want.len(), d())),
                Some(i) => ctx.violation(&format!("{name}/value/{label}"), || format!("element {i}: observed {:?}, expected {:?} (full: {g:?} vs {want:?}); {}", g[i], want[i], d())),
            }
        },
    }
}

// ---- positional oracles ------------------------------------------------------------------

fn o_shift(x: &[O], n: i64, fill: O) -> Vec<O> {
    let len = x.len() as i64;
    (0..len).map(|i| if i - n >= 0 && i - n < len { x[(i - n) as usize] } else { fill }).collect()
}
fn o_diff(x: &[O], n: i64, fill: O) -> Vec<O> {
    let len = x.len() as i64;
    (0..len)
        .map(|i| {
            let j = i - n;
            if j >= 0 && j < len {
                match (x[i as usize], x[j as usize]) {
                    (Some(a), Some(b)) => {
                        let r = a - b;
                        if r.is_nan() { None } else { Some(r) }
                    },
                    _ => None,
                }
            } else {
                fill
            }
        })
        .collect()
}
fn o_pct(x: &[O], n: i64) -> Vec<O> {
    let len = x.len() as i64;
    (0..len)
        .map(|i| {
            let j = i - n;
            if j >= 0 && j < len {
                match (x[i as usize], x[j as usize]) {
                    (Some(a), Some(b)) if b != 0.0 => {
                        let r = a / b - 1.0;
                        if r.is_nan() { None } else { Some(r) }
                    },
                    _ => None,
                }
            } else {
                None
            }
        })
        .collect()
}
fn o_ffill(x: &[O], default: O) -> Vec<O> {
    let mut last = None;
    x.iter()
        .map(|v| match v {
            Some(a) => {
                last = Some(*a);
                Some(*a)
            },
            None => last.or(default),
        })
        .collect()
}
fn o_bfill(x: &[O], default: O) -> Vec<O> {
    let mut r: Vec<O> = x.iter().rev().cloned().collect();
    r = o_ffill(&r, default);
    r.reverse();
    r
}
fn o_clip(x: &[O], lo: O, hi: O) -> Vec<O> {
    x.iter()
        .map(|v| {
            v.map(|a| match (lo, hi) {
                (Some(l), Some(h)) => {
                    if a < l {
                        l
                    } else if a > h {
                        h
                    } else {
                        a
                    }
                },
                (Some(l), None) => {
                    if a < l { l } else { a }
                },
                (None, Some(h)) => {
                    if a > h { h } else { a }
                },
                (None, None) => a,
            })
        })
        .collect()
}

fn lags(len: usize, rng: &mut Rng, all: bool) -> Vec<i32> {
    let l = len as i32;
    let mut v: Vec<i32> = if all { (-l - 3..=l + 3).collect() } else { (0..6).map(|_| rng.range_i64(-(l as i64) - 3, l as i64 + 3) as i32).collect() };
    v.push(i32::MIN);
    v.push(i32::MAX);
    v
}

fn run_case(ctx: &mut Ctx, rng: &mut Rng, x: &Series, all_lags: bool) {
    let xf = enc_f64(x);
    let xo = enc_opt_f64(x);
    let xs = fmt_series(x);
    let len = x.len();
    let fills: [O; 3] = [None, Some(0.0), Some(rng.range_i64(-6, 6) as f64 / 2.0)];
    for n in lags(len, rng, all_lags) {
        let nn = n as i64;
        for fill in fills {
            // shift on the plain iterator: fill is a plain value (NaN plays the null)
            let fv = fill.unwrap_or(f64::NAN);
            let want = o_shift(x, nn, fill);
            judge(ctx, "shift", "vec<f64>", &|| format!("titer().shift({n}, {fv}) x={xs}"), catch(|| dec(xf.titer().shift(n, fv).take(CAP).collect())), &want);
            judge(ctx, "shift", "vec<opt f64>", &|| format!("titer().shift({n}, {fill:?}) x={xs}"), catch(|| xo.titer().shift(n, fill).take(CAP).collect()), &want);
            judge(ctx, "vshift", "vec<f64>", &|| format!("titer().vshift({n}, {fill:?}) x={xs}"), catch(|| dec(xf.titer().vshift(n, fill).take(CAP).collect())), &want);
            judge(ctx, "vshift", "vec<opt f64>", &|| format!("titer().vshift({n}, {:?}) x={xs}", fill.map(Some)), catch(|| xo.titer().vshift(n, fill.map(Some)).collect()), &want);
            let wd = o_diff(x, nn, fill);
            judge(ctx, "vdiff", "vec<f64>", &|| format!("vdiff({n}, {fill:?}) x={xs}"), catch(|| dec(xf.vdiff(n, fill).take(CAP).collect())), &wd);
        }
        let wp = o_pct(x, nn);
        judge(ctx, "vpct_change", "vec<f64>", &|| format!("vpct_change({n}) x={xs}"), catch(|| dec(xf.vpct_change(n).take(CAP).collect())), &wp);
        judge(ctx, "vpct_change", "vec<opt f64>", &|| format!("vpct_change({n}) x={xs}"), catch(|| dec(xo.vpct_change(n).take(CAP).collect())), &wp);
        // view-based operations on other backends
        let dq = deque_of(&xf, rng.below(len + 1));
        judge(ctx, "vdiff", "deque<f64>", &|| format!("vdiff({n}, None) [deque] x={xs}"), catch(|| dec(dq.vdiff(n, None).take(CAP).collect())), &o_diff(x, nn, None));
        judge(ctx, "vpct_change", "deque<f64>", &|| format!("vpct_change({n}) [deque] x={xs}"), catch(|| dec(dq.vpct_change(n).take(CAP).collect())), &wp);
        let step = *rng.pick(&[2isize, -1, 3]);
        let base = nd_base(&xf, step, 77.0);
        let v = nd_view(&base, step);
        judge(ctx, "vdiff", "arrayview1<f64>", &|| format!("vdiff({n}, Some(1.5)) [arrayview1 step {step}] x={xs}"), catch(|| dec(v.vdiff(n, Some(1.5)).collect())), &o_diff(x, nn, Some(1.5)));
        judge(ctx, "vpct_change", "arrayview1<f64>", &|| format!("vpct_change({n}) [arrayview1 step {step}] x={xs}"), catch(|| dec(v.vpct_change(n).take(CAP).collect())), &wp);
        judge(ctx, "vshift", "deque<f64>", &|| format!("titer().vshift({n}, None) [deque] x={xs}"), catch(|| dec(dq.titer().vshift(n, None).take(CAP).collect())), &o_shift(x, nn, None));
        // integer elements (no null): fill must be given
        if int_valued(&[x]) && !has_nulls(x) {
            let xi = enc_i32(x);
            let wi: Vec<O> = o_diff(x, nn, Some(7.0));
            judge(ctx, "vdiff", "vec<i32>", &|| format!("vdiff({n}, Some(7)) [i32] x={xs}"), catch(|| xi.vdiff(n, Some(7)).map(|v| Some(v as f64)).collect()), &wi);
            judge(ctx, "shift", "vec<i32>", &|| format!("titer().shift({n}, 7) [i32] x={xs}"), catch(|| xi.titer().shift(n, 7).take(CAP).map(|v| Some(v as f64)).collect()), &o_shift(x, nn, Some(7.0)));
        }
    }
    // fills
    for default in fills {
        judge(ctx, "ffill", "vec<f64>", &|| format!("ffill({default:?}) x={xs}"), catch(|| dec(xf.titer().ffill(default).collect())), &o_ffill(x, default));
        judge(ctx, "ffill", "vec<opt f64>", &|| format!("ffill({:?}) x={xs}", default.map(Some)), catch(|| xo.titer().ffill(default.map(Some)).collect()), &o_ffill(x, default));
        judge(ctx, "bfill", "vec<f64>", &|| format!("bfill({default:?}) x={xs}"), catch(|| dec(xf.titer().bfill(default).collect())), &o_bfill(x, default));
        judge(ctx, "bfill", "vec<opt f64>", &|| format!("bfill({:?}) x={xs}", default.map(Some)), catch(|| xo.titer().bfill(default.map(Some)).collect()), &o_bfill(x, default));
        judge(ctx, "ffill_mask", "vec<f64>", &|| format!("ffill_mask(is NaN, {default:?}) x={xs}"), catch(|| dec(xf.titer().ffill_mask(|v| v.is_nan(), default).collect())), &o_ffill(x, default));
        judge(ctx, "bfill_mask", "vec<f64>", &|| format!("bfill_mask(is NaN, {default:?}) x={xs}"), catch(|| dec(xf.titer().bfill_mask(|v| v.is_nan(), default).collect())), &o_bfill(x, default));
        if let Some(fv) = default {
            let want: Vec<O> = x.iter().map(|v| v.or(Some(fv))).collect();
            judge(ctx, "fill", "vec<f64>", &|| format!("fill({fv}) x={xs}"), catch(|| dec(xf.titer().fill(fv).collect())), &want);
            judge(ctx, "fill", "vec<opt f64>", &|| format!("fill(Some({fv})) x={xs}"), catch(|| xo.titer().fill(Some(fv)).collect()), &want);
        }
    }
    // a mask other than "is null": replace negative values
    let wm: Vec<O> = x.iter().map(|v| v.map(|a| if a < 0.0 { 9.0 } else { a })).collect();
    judge(ctx, "fill_mask", "vec<f64>", &|| format!("fill_mask(<0, 9) x={xs}"), catch(|| dec(xf.titer().fill_mask(|v| *v < 0.0, 9.0).collect())), &wm);
    // abs
    let wa: Vec<O> = x.iter().map(|v| v.map(f64::abs)).collect();
    judge(ctx, "abs", "vec<f64>", &|| format!("abs x={xs}"), catch(|| dec(xf.titer().abs().collect())), &wa);
    judge(ctx, "vabs", "vec<f64>", &|| format!("vabs x={xs}"), catch(|| dec(xf.titer().vabs().collect())), &wa);
    judge(ctx, "vabs", "vec<opt f64>", &|| format!("vabs x={xs}"), catch(|| xo.titer().vabs().collect()), &wa);
    // clip: bounds in every order relation incl. null
    let mut bounds: Vec<(O, O)> = vec![(None, None), (Some(-1.0), None), (None, Some(2.0)), (Some(-1.0), Some(2.0)), (Some(2.0), Some(-1.0)), (Some(0.5), Some(0.5))];
    for _ in 0..3 {
        let pick = |rng: &mut Rng| if len > 0 && rng.chance(0.6) { x[rng.below(len)] } else { Some(rng.range_i64(-8, 8) as f64 / 2.0) };
        bounds.push((pick(rng), pick(rng)));
    }
    for (lo, hi) in bounds {
        let want = o_clip(x, lo, hi);
        let (ln, hn) = (lo.unwrap_or(f64::NAN), hi.unwrap_or(f64::NAN));
        if matches!((lo, hi), (Some(l), Some(h)) if l > h) {
            // crossed bounds: C13 fixes only that clip acts on each element alone and leaves nulls
            // null (idempotence / containment are claimed for lower <= upper); which bound wins is
            // open (the library: lower below it, numpy: always upper). Judged: length, nulls stay
            // null, every other element is the element itself or one of the two bounds.
            let (l, h) = (lo.unwrap(), hi.unwrap());
            for (label, got) in [("vec<f64>", catch(|| dec(xf.titer().vclip(ln, hn).collect()))), ("vec<opt f64>", catch(|| xo.titer().vclip(lo, hi).collect()))] {
                ctx.evaluations += 1;
                match got {
                    Err(p) => ctx.violation(&format!("vclip/panic/{}", panic_key(&p)), || format!("{p}; vclip({lo:?}, {hi:?}) x={xs}")),
                    Ok(g) => {
                        ctx.events += g.len() as u64;
                        let bad = if g.len() != len {
                            Some(usize::MAX)
                        } else {
                            (0..len).find(|&i| match (x[i], g[i]) {
                                (None, None) => false,
                                (Some(v), Some(r)) => !(r == v || r == l || r == h),
                                _ => true,
                            })
                        };
                        match bad {
                            None => ctx.count("ok.vclip_crossed_bounds"),
                            Some(usize::MAX) => ctx.violation("vclip/length", || format!("{} elements for {len}; vclip({lo:?}, {hi:?}) x={xs}", g.len())),
                            Some(i) => ctx.violation(&format!("vclip/crossed_bounds/{label}"), || format!("element {i}: {:?} becomes {:?} (neither itself nor a bound, or null status changed); vclip({lo:?}, {hi:?}) x={xs}", x[i], g[i])),
                        }
                    },
                }
            }
            continue;
        }
        judge(ctx, "vclip", "vec<f64>", &|| format!("vclip({lo:?}, {hi:?}) x={xs}"), catch(|| dec(xf.titer().vclip(ln, hn).collect())), &want);
        judge(ctx, "vclip", "vec<opt f64>", &|| format!("vclip({lo:?}, {hi:?}) x={xs}"), catch(|| xo.titer().vclip(lo, hi).collect()), &want);
        // idempotence and containment for lower <= upper
        let ordered = match (lo, hi) {
            (Some(l), Some(h)) => l <= h,
            _ => true,
        };
        if ordered {
            ctx.evaluations += 1;
            let twice = catch(|| {
                let once: Vec<f64> = xf.titer().vclip(ln, hn).collect();
                let twice: Vec<f64> = once.titer().vclip(ln, hn).collect();
                (dec(once), dec(twice))
            });
            match twice {
                Ok((a, b)) => {
                    let inside = a.iter().flatten().all(|v| lo.map(|l| *v >= l).unwrap_or(true) && hi.map(|h| *v <= h).unwrap_or(true));
                    if same(&a, &b).is_some() {
                        ctx.violation("vclip/not_idempotent", || format!("clip(clip(x)) != clip(x) for bounds ({lo:?},{hi:?}); x={xs}"));
                    } else if !inside {
                        ctx.violation("vclip/outside_bounds", || format!("result {a:?} leaves the bounds ({lo:?},{hi:?}); x={xs}"));
                    } else {
                        ctx.count("clip_idempotent_ok");
                    }
                },
                Err(p) => ctx.violation(&format!("vclip/panic/{}", panic_key(&p)), || format!("{p}; x={xs}")),
            }
        }
    }
}

fn main() {
    let mut ctx = Ctx::from_args("C13");
    let san = ctx.is_sanitizer_mode();
    let nmax = if san { ctx.budget(3, 5) } else { ctx.budget(9, 14) };
    for len in 0..=nmax {
        for pat in NULL_PATTERNS {
            if san && !matches!(pat, NullPat::NoNulls | NullPat::Random50 | NullPat::All) {
                continue;
            }
            if let Some(mut rng) = ctx.sweep_case() {
                let c = *rng.pick(&ALL_CLASSES);
                let x = series(&mut rng, c, pat, len);
                run_case(&mut ctx, &mut rng, &x, true);
            }
        }
    }
    let nr = if san { ctx.cbudget(2, 6) } else { ctx.cbudget(1500, 30000) };
    for _ in 0..nr {
        if let Some(mut rng) = ctx.random_case() {
            let len = rng.range_usize(0, if san { 8 } else { 60 });
            let (mut x, _, _) = random_series(&mut rng, &ALL_CLASSES, len);
            // zero bases for pct_change
            if len > 0 && rng.chance(0.5) {
                for _ in 0..1 + len / 6 {
                    let i = rng.below(len);
                    x[i] = Some(0.0);
                }
            }
            run_case(&mut ctx, &mut rng, &x, false);
        }
    }
    std::process::exit(ctx.finish());
}
