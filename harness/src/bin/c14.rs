//! C14 — binning assigns the unique enclosing bin; run de-duplication keeps run ends.
use tevec::prelude::{Keep, MapValidBasic, TIter, TResult};
use tvmon::ctx::{Ctx, catch, is_marked_panic, panic_key};
use tvmon::rng::Rng;
use tvmon::wl::*;

#[derive(Clone, Debug, PartialEq)]
enum Cut {
    /// label index
    Label(usize),
    NullLabel,
    Err,
}

/// oracle: the unique interval containing the value
fn o_cut(v: Option<f64>, edges: &[f64], right: bool, add_bounds: bool) -> Cut {
    let Some(v) = v else { return Cut::NullLabel };
    // intervals: with open outer bounds (-inf, e0], (e0, e1], ..., (ek, +inf)   [right closed]
    let k = edges.len();
    let nint = if add_bounds { k + 1 } else { k.saturating_sub(1) };
    for i in 0..nint {
        let (lo, hi): (Option<f64>, Option<f64>) = if add_bounds {
            (if i == 0 { None } else { Some(edges[i - 1]) }, if i == k { None } else { Some(edges[i]) })
        } else {
            (Some(edges[i]), Some(edges[i + 1]))
        };
        let lo_ok = match lo {
            None => true,
            Some(l) => if right { l < v } else { l <= v },
        };
        let hi_ok = match hi {
            None => true,
            Some(h) => if right { v <= h } else { v < h },
        };
        if lo_ok && hi_ok {
            return Cut::Label(i);
        }
    }
    Cut::Err
}

fn cut_case_f64(ctx: &mut Ctx, x: &Series, edges: &[f64], nlabels: usize, right: bool, add_bounds: bool) {
    let xf = enc_f64(x);
    let labels: Vec<f64> = (0..nlabels).map(|i| 100.0 + i as f64).collect();
    let nint = if add_bounds { edges.len() + 1 } else { edges.len().saturating_sub(1) };
    let d = || format!("vcut(bins={edges:?}, labels 100..{}, right={right}, add_bounds={add_bounds}) x={}", 100 + nlabels, fmt_series(x));
    ctx.evaluations += 1;
    let edges_v = edges.to_vec();
    let r = catch(|| match xf.titer().vcut(&edges_v, &labels, right, add_bounds) {
        Ok(it) => Ok(it.collect::<Vec<TResult<f64>>>()),
        Err(e) => Err(e.to_string()),
    });
    let should_err = nlabels != nint;
    if !add_bounds && edges.is_empty() {
        // no edges, no intervals: "labels = edges - 1" is undefined; any clean outcome is accepted
        ctx.count(if r.is_ok() { "cut_no_edges_unconstrained" } else { "cut_no_edges_panic" });
        if let Err(p) = &r {
            ctx.violation(&format!("vcut/panic/{}", panic_key(p)), || format!("{p}; {}", d()));
        }
        return;
    }
    match r {
        Err(p) => {
            let k = if is_marked_panic(&p) { "memory" } else { "panic" };
            ctx.violation(&format!("vcut/{k}/{}", panic_key(&p)), || format!("{p}; {}", d()));
        },
        Ok(Err(_)) if should_err => ctx.count("cut_label_mismatch_err_ok"),
        Ok(Err(e)) => ctx.violation("vcut/unexpected_call_err", || format!("Err({e}) although {nlabels} labels match {nint} intervals; {}", d())),
        Ok(Ok(_)) if should_err => ctx.violation("vcut/missing_call_err", || format!("label count {nlabels} does not match {nint} intervals but the call succeeded; {}", d())),
        Ok(Ok(out)) => {
            if out.len() != x.len() {
                ctx.violation("vcut/length", || format!("{} items for {} values; {}", out.len(), x.len(), d()));
                return;
            }
            for (i, (o, v)) in out.iter().zip(x.iter()).enumerate() {
                ctx.events += 1;
                let want = o_cut(*v, edges, right, add_bounds);
                let got = match o {
                    Err(_) => Cut::Err,
                    Ok(l) if l.is_nan() => Cut::NullLabel,
                    Ok(l) => Cut::Label((*l - 100.0) as usize),
                };
                if got != want {
                    let cls = match (&want, &got) {
                        (Cut::Label(_), Cut::Err) if add_bounds => {
                            let vv = v.unwrap();
                            if vv == f64::MIN || vv == f64::MAX || vv.is_infinite() { "extreme_value_unlabelled".to_string() } else { "value_unlabelled_with_open_bounds".to_string() }
                        },
                        (Cut::Label(_), Cut::Label(_)) => "wrong_label".into(),
                        (Cut::Err, Cut::Label(_)) => "label_for_outside_value".into(),
                        (Cut::NullLabel, _) => "null_not_null_label".into(),
                        _ => "other".into(),
                    };
                    ctx.violation(&format!("vcut/{cls}/right={right}"), || format!("element {i} = {v:?}: observed {got:?}, expected {want:?}; {}", d()));
                    return;
                }
                match want {
                    Cut::Label(_) => ctx.count("cut_label_ok"),
                    Cut::NullLabel => ctx.count("cut_null_ok"),
                    Cut::Err => ctx.count("cut_outside_err_ok"),
                }
            }
            if x.len() > 2 && edges.len() > 1 {
                ctx.sample(|| format!("{} -> every element got the label of its unique enclosing interval / null label / Err", d()));
            }
            ctx.distinct(&format!("cut|f64|{}|{}|{right}|{add_bounds}|{}", edges.len(), nlabels, x.len().min(12)));
        },
    }
}

/// integer values and edges, optional-integer labels
fn cut_case_i32(ctx: &mut Ctx, xs: &[i32], edges: &[i32], right: bool, add_bounds: bool) {
    let nint = if add_bounds { edges.len() + 1 } else { edges.len().saturating_sub(1) };
    let labels: Vec<Option<i32>> = (0..nint).map(|i| Some(100 + i as i32)).collect();
    let d = || format!("vcut(bins={edges:?}, labels Some(100..), right={right}, add_bounds={add_bounds}) [i32] x={xs:?}");
    ctx.evaluations += 1;
    let edges_v = edges.to_vec();
    let xv = xs.to_vec();
    let r = catch(|| match xv.titer().vcut(&edges_v, &labels, right, add_bounds) {
        Ok(it) => Ok(it.collect::<Vec<TResult<Option<i32>>>>()),
        Err(e) => Err(e.to_string()),
    });
    match r {
        Err(p) => ctx.violation(&format!("vcut/panic/{}", panic_key(&p)), || format!("{p}; {}", d())),
        Ok(Err(e)) => ctx.violation("vcut/unexpected_call_err", || format!("Err({e}); {}", d())),
        Ok(Ok(out)) => {
            let ef: Vec<f64> = edges.iter().map(|e| *e as f64).collect();
            for (i, (o, v)) in out.iter().zip(xs.iter()).enumerate() {
                ctx.events += 1;
                let want = o_cut(Some(*v as f64), &ef, right, add_bounds);
                let got = match o {
                    Err(_) => Cut::Err,
                    Ok(None) => Cut::NullLabel,
                    Ok(Some(l)) => Cut::Label((*l - 100) as usize),
                };
                if got != want {
                    let cls = if add_bounds && (*v == i32::MIN || *v == i32::MAX) && got == Cut::Err { "extreme_value_unlabelled" } else { "wrong_result_i32" };
                    ctx.violation(&format!("vcut/{cls}/right={right}"), || format!("element {i} = {v}: observed {got:?}, expected {want:?}; {}", d()));
                    return;
                }
                ctx.count("cut_label_ok_i32");
            }
            ctx.distinct(&format!("cut|i32|{}|{right}|{add_bounds}|{}", edges.len(), xs.len().min(12)));
        },
    }
}

fn ascending_edges(rng: &mut Rng, k: usize) -> Vec<f64> {
    let mut e: Vec<f64> = Vec::new();
    let mut cur = rng.range_i64(-8, 0) as f64;
    for _ in 0..k {
        e.push(cur);
        // ascending, not strictly: a repeated edge makes an empty bin, the value equal to it still has one enclosing bin
        cur += if rng.chance(0.25) { 0.0 } else { rng.range_i64(1, 4) as f64 / 2.0 };
    }
    e
}

fn cut_suite(ctx: &mut Ctx, rng: &mut Rng, len: usize) {
    for k in 0..=5usize {
        let edges = ascending_edges(rng, k);
        // values: random, equal to an edge, the type's extremes, nulls
        let mut x: Series = (0..len).map(|_| if rng.chance(0.15) { None } else { Some(rng.range_i64(-20, 20) as f64 / 2.0) }).collect();
        if edges.windows(2).any(|w| w[0] == w[1]) {
            ctx.count("state.cut_repeated_edge");
        }
        for e in &edges {
            if !x.is_empty() && rng.chance(0.7) {
                let i = rng.below(x.len());
                x[i] = Some(*e);
            }
        }
        for nl in 0..=6usize {
            for (right, add) in [(true, true), (false, true), (true, false), (false, false)] {
                cut_case_f64(ctx, &x, &edges, nl, right, add);
            }
        }
        // extremes with open outer bounds: every non-null value must receive a label
        let mut xe = x.clone();
        xe.extend([Some(f64::MIN), Some(f64::MAX), Some(f64::INFINITY), Some(f64::NEG_INFINITY), Some(-1e300), Some(1e300)]);
        for right in [true, false] {
            ctx.count("cut_extreme_cases");
            cut_case_f64(ctx, &xe, &edges, k + 1, right, true);
        }
        let ei: Vec<i32> = edges.iter().map(|e| (*e * 2.0) as i32).collect();
        let mut ei2 = ei.clone();
        ei2.dedup();
        let mut xi: Vec<i32> = (0..len).map(|_| rng.range_i64(-20, 20) as i32).collect();
        xi.extend([i32::MIN, i32::MAX, i32::MIN + 1, i32::MAX - 1]);
        xi.extend(ei2.iter().copied());
        for (right, add) in [(true, true), (false, true)] {
            cut_case_i32(ctx, &xi, &ei2, right, add);
        }
        if ei2.len() >= 2 {
            let inside: Vec<i32> = xi.iter().copied().filter(|v| *v > ei2[0] && *v < *ei2.last().unwrap()).collect();
            for right in [true, false] {
                cut_case_i32(ctx, &inside, &ei2, right, false);
            }
        }
    }
}

// ---- run de-duplication ------------------------------------------------------------------

/// run-structured series: ascending or descending runs of every length, null block at head or tail
fn run_series(rng: &mut Rng) -> Series {
    let nruns = rng.range_usize(0, 6);
    let desc = rng.chance(0.5);
    let mut cur = rng.range_i64(-5, 5) as f64;
    let mut s: Series = Vec::new();
    for _ in 0..nruns {
        let rl = rng.range_usize(1, 4);
        for _ in 0..rl {
            s.push(Some(cur));
        }
        let step = rng.range_i64(1, 3) as f64 / 2.0;
        cur += if desc { -step } else { step };
    }
    let nb = rng.range_usize(0, 3);
    match rng.below(3) {
        0 => {},
        1 => {
            let mut h: Series = vec![None; nb];
            h.extend(s);
            s = h;
        },
        _ => s.extend(vec![None; nb]),
    }
    s
}

fn unique_case(ctx: &mut Ctx, x: &Series) {
    let xs = fmt_series(x);
    // oracle: runs of equal non-null adjacent values
    let mut first = Vec::new();
    let mut last = Vec::new();
    let mut reps = Vec::new();
    let mut i = 0;
    while i < x.len() {
        match x[i] {
            None => i += 1,
            Some(v) => {
                let mut j = i;
                while j + 1 < x.len() && x[j + 1] == Some(v) {
                    j += 1;
                }
                first.push(i);
                last.push(j);
                reps.push(v);
                i = j + 1;
            },
        }
    }
    let xf = enc_f64(x);
    let xo = enc_opt_f64(x);
    let head_nulls = x.first().map(|v| v.is_none()).unwrap_or(false);
    let mut chk = |ctx: &mut Ctx, name: &str, got: Result<Vec<usize>, String>, want: &Vec<usize>| {
        ctx.evaluations += 1;
        ctx.events += want.len() as u64 + 1;
        match got {
            Err(p) => ctx.violation(&format!("{name}/panic/{}", panic_key(&p)), || format!("{p}; x={xs}")),
            Ok(g) if g == *want => {
                ctx.count(&format!("ok.{name}"));
                if !want.is_empty() {
                    ctx.distinct(&format!("{name}|{}|{}|{head_nulls}", x.len(), want.len()));
                }
            },
            Ok(g) => {
                let null_idx = g.iter().any(|i| *i >= x.len() || x[*i].is_none());
                let cls = if null_idx { if head_nulls { "index_of_null/leading_nulls" } else { "index_of_null" } } else { "wrong_indices" };
                ctx.violation(&format!("{name}/{cls}"), || format!("observed {g:?}, expected {want:?}; x={xs}"));
            },
        }
    };
    chk(ctx, "vsorted_unique_idx(First)", catch(|| xf.titer().vsorted_unique_idx(Keep::First).collect()), &first);
    chk(ctx, "vsorted_unique_idx(Last)", catch(|| xf.titer().vsorted_unique_idx(Keep::Last).collect()), &last);
    chk(ctx, "vsorted_unique_idx(First)[opt]", catch(|| xo.titer().vsorted_unique_idx(Keep::First).collect()), &first);
    chk(ctx, "vsorted_unique_idx(Last)[opt]", catch(|| xo.titer().vsorted_unique_idx(Keep::Last).collect()), &last);
    ctx.evaluations += 2;
    match catch(|| xf.titer().vsorted_unique().collect::<Vec<f64>>()) {
        Ok(g) if g == reps => ctx.count("ok.vsorted_unique"),
        Ok(g) => ctx.violation("vsorted_unique/value", || format!("observed {g:?}, expected {reps:?}; x={xs}")),
        Err(p) => ctx.violation(&format!("vsorted_unique/panic/{}", panic_key(&p)), || format!("{p}; x={xs}")),
    }
    match catch(|| xo.titer().vsorted_unique().collect::<Vec<Option<f64>>>()) {
        Ok(g) if g == reps.iter().map(|v| Some(*v)).collect::<Vec<_>>() => ctx.count("ok.vsorted_unique"),
        Ok(g) => ctx.violation("vsorted_unique/value", || format!("observed {g:?}, expected {reps:?}; x={xs} [opt]")),
        Err(p) => ctx.violation(&format!("vsorted_unique/panic/{}", panic_key(&p)), || format!("{p}; x={xs}")),
    }
}

fn main() {
    let mut ctx = Ctx::from_args("C14");
    let nc = ctx.cbudget(200, 3000);
    for k in 0..nc {
        if let Some(mut rng) = ctx.sweep_case() {
            cut_suite(&mut ctx, &mut rng, k % 9);
        }
    }
    let nu = ctx.cbudget(20000, 400000);
    for _ in 0..nu {
        if let Some(mut rng) = ctx.random_case() {
            let x = run_series(&mut rng);
            unique_case(&mut ctx, &x);
        }
    }
    // structured: every run length 1..4 x null block 0..3 at head / tail
    for rl in 1..=4usize {
        for nb in 0..=3usize {
            for head in [true, false] {
                if ctx.sweep_case().is_some() {
                    let mut s: Series = Vec::new();
                    for v in [4.0, 2.0, 0.0] {
                        for _ in 0..rl {
                            s.push(Some(v));
                        }
                    }
                    let nulls: Series = vec![None; nb];
                    let x: Series = if head { nulls.into_iter().chain(s).collect() } else { s.into_iter().chain(nulls).collect() };
                    unique_case(&mut ctx, &x);
                }
            }
        }
    }
    std::process::exit(ctx.finish());
}
