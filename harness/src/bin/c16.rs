//! C16 — time values: NaT is absorbing and unit changes agree with the calendar.
use tevec::export::chrono::{DateTime as CrDateTime, Datelike, Duration, Timelike, Utc};
use tevec::prelude::{Cast, DateTime, Time, TimeDelta, unit};
use tvmon::ctx::{Ctx, catch, panic_key};
use tvmon::rng::Rng;

#[derive(Clone, Copy, Debug, PartialEq, Eq)]
enum U {
    S,
    Ms,
    Us,
    Ns,
}
const UNITS: [U; 4] = [U::S, U::Ms, U::Us, U::Ns];

impl U {
    fn per_sec(self) -> i128 {
        match self {
            U::S => 1,
            U::Ms => 1_000,
            U::Us => 1_000_000,
            U::Ns => 1_000_000_000,
        }
    }
    /// chrono's own conversion of a raw count in this unit
    fn to_cr(self, v: i64) -> Option<CrDateTime<Utc>> {
        match self {
            U::S => CrDateTime::from_timestamp(v, 0),
            U::Ms => CrDateTime::from_timestamp_millis(v),
            U::Us => CrDateTime::from_timestamp_micros(v),
            U::Ns => Some(CrDateTime::from_timestamp_nanos(v)),
        }
    }
    fn from_cr(self, c: &CrDateTime<Utc>) -> Option<i64> {
        match self {
            U::S => Some(c.timestamp()),
            U::Ms => Some(c.timestamp_millis()),
            U::Us => Some(c.timestamp_micros()),
            U::Ns => c.timestamp_nanos_opt(),
        }
    }
}

/// dispatch a generic closure body over the unit marker types
macro_rules! with_unit {
    ($u:expr, $T:ident => $body:expr) => {
        match $u {
            U::S => {
                type $T = unit::Second;
                $body
            },
            U::Ms => {
                type $T = unit::Millisecond;
                $body
            },
            U::Us => {
                type $T = unit::Microsecond;
                $body
            },
            U::Ns => {
                type $T = unit::Nanosecond;
                $body
            },
        }
    };
}

fn convert(from: U, to: U, v: i64) -> Result<i64, String> {
    catch(|| {
        with_unit!(from, A => {
            let d = DateTime::<A>::new(v);
            with_unit!(to, B => d.into_unit::<B>().0)
        })
    })
}

fn cast_convert(from: U, to: U, v: i64) -> Result<i64, String> {
    // Cast<DateTime<_>> is implemented for the 12 ordered pairs of distinct units
    macro_rules! c {
        ($a:ident, $b:ident) => {
            catch(|| Cast::<DateTime<unit::$b>>::cast(DateTime::<unit::$a>::new(v)).0)
        };
    }
    match (from, to) {
        (U::S, U::Ms) => c!(Second, Millisecond),
        (U::S, U::Us) => c!(Second, Microsecond),
        (U::S, U::Ns) => c!(Second, Nanosecond),
        (U::Ms, U::S) => c!(Millisecond, Second),
        (U::Ms, U::Us) => c!(Millisecond, Microsecond),
        (U::Ms, U::Ns) => c!(Millisecond, Nanosecond),
        (U::Us, U::S) => c!(Microsecond, Second),
        (U::Us, U::Ms) => c!(Microsecond, Millisecond),
        (U::Us, U::Ns) => c!(Microsecond, Nanosecond),
        (U::Ns, U::S) => c!(Nanosecond, Second),
        (U::Ns, U::Ms) => c!(Nanosecond, Millisecond),
        (U::Ns, U::Us) => c!(Nanosecond, Microsecond),
        _ => convert(from, to, v),
    }
}

fn unit_pair(ctx: &mut Ctx, from: U, to: U, v: i64) {
    ctx.evaluations += 1;
    ctx.events += 1;
    let d = || format!("DateTime<{from:?}>({v}) -> {to:?}");
    let nat = v == i64::MIN;
    // oracle: i128 floor division / multiplication
    let exact: i128 = if from.per_sec() >= to.per_sec() {
        let r = from.per_sec() / to.per_sec();
        (v as i128).div_euclid(r)
    } else {
        (v as i128) * (to.per_sec() / from.per_sec())
    };
    let representable = exact > i64::MIN as i128 && exact <= i64::MAX as i128;
    for (how, r) in [("into_unit", convert(from, to, v)), ("cast", cast_convert(from, to, v))] {
        match r {
            Err(p) => {
                if nat {
                    ctx.violation(&format!("{how}/nat_panics/{from:?}->{to:?}"), || format!("NaT conversion panics: {p}"));
                } else if representable {
                    ctx.violation(&format!("{how}/panic/{}", panic_key(&p)), || format!("{p}; {}", d()));
                } else {
                    ctx.count("out_of_range_panics");
                }
            },
            Ok(g) => {
                if nat {
                    if g != i64::MIN {
                        ctx.violation(&format!("{how}/nat_not_preserved/{from:?}->{to:?}"), || format!("NaT -> {g}"));
                    } else {
                        ctx.count("nat_conversions_ok");
                    }
                    continue;
                }
                if !representable {
                    ctx.count("out_of_range_results");
                    continue;
                }
                if g as i128 != exact {
                    let cls = if v < 0 && from.per_sec() > to.per_sec() && (v as i128) % (from.per_sec() / to.per_sec()) != 0 { "pre_epoch_truncates_toward_zero" } else { "wrong_value" };
                    ctx.violation(&format!("{how}/{cls}/{from:?}->{to:?}"), || format!("observed {g}, expected {exact} (floor toward the past); {}", d()));
                    continue;
                }
                ctx.count("unit_conversions_ok");
                // cross-check against chrono where it can represent the instant
                if let (Some(c), true) = (from.to_cr(v), how == "into_unit") {
                    if let Some(want) = to.from_cr(&c) {
                        if want != g {
                            ctx.violation(&format!("{how}/differs_from_calendar/{from:?}->{to:?}"), || format!("observed {g}, chrono says {want}; {}", d()));
                        } else {
                            ctx.count("calendar_agreements");
                        }
                    }
                }
                // finer and back is the identity
                if from.per_sec() < to.per_sec() {
                    match convert(to, from, g) {
                        Ok(b) if b == v => ctx.count("finer_and_back_ok"),
                        Ok(b) => ctx.violation(&format!("{how}/finer_and_back/{from:?}->{to:?}"), || format!("{v} -> {g} -> {b}")),
                        Err(p) => ctx.violation(&format!("{how}/panic/{}", panic_key(&p)), || format!("{p} converting back; {}", d())),
                    }
                }
                ctx.distinct(&format!("{from:?}|{to:?}|{}|{}", v.signum(), (v.unsigned_abs() as f64).log10().floor()));
                if v < 0 && from.per_sec() > to.per_sec() {
                    ctx.sample(|| format!("{} = {g} (i128 floor {exact}, chrono agrees)", d()));
                }
            },
        }
    }
}

fn calendar_roundtrip(ctx: &mut Ctx, u: U, v: i64) {
    ctx.evaluations += 1;
    let nat = v == i64::MIN;
    let want = if nat { None } else { u.to_cr(v) };
    with_unit!(u, A => {
        let t = DateTime::<A>::new(v);
        let got = catch(|| t.as_cr());
        match got {
            Err(p) => ctx.violation(&format!("as_cr/panic/{}", panic_key(&p)), || format!("{p}; DateTime<{u:?}>({v})")),
            Ok(g) => {
                ctx.events += 8;
                if g != want {
                    ctx.violation(&format!("as_cr/{}", if nat { "nat_not_none" } else { "differs_from_calendar" }), || format!("DateTime<{u:?}>({v}).as_cr() = {g:?}, chrono {want:?}"));
                    return;
                }
                let fields = (t.year(), t.month(), t.day(), t.hour(), t.minute(), t.second());
                let wf = want.map(|c| (c.year(), c.month() as usize, c.day() as usize, c.hour() as usize, c.minute() as usize, c.second() as usize));
                let gf = match fields {
                    (Some(a), Some(b), Some(c), Some(d), Some(e), Some(f)) => Some((a, b, c, d, e, f)),
                    (None, None, None, None, None, None) => None,
                    _ => Some((i32::MIN, 0, 0, 0, 0, 0)),
                };
                if gf != wf {
                    ctx.violation("getters/differ_from_calendar", || format!("DateTime<{u:?}>({v}): fields {fields:?}, chrono {wf:?}"));
                    return;
                }
                if t.into_opt_i64() != (if nat { None } else { Some(v) }) {
                    ctx.violation("into_opt_i64/value", || format!("DateTime<{u:?}>({v}).into_opt_i64() = {:?}", t.into_opt_i64()));
                    return;
                }
                if let Some(c) = want {
                    // From<chrono> round trip (within the representable range of the unit)
                    if u.from_cr(&c).is_some() {
                        let back: DateTime<A> = c.into();
                        if back.0 != v {
                            ctx.violation("from_chrono/roundtrip", || format!("DateTime<{u:?}>({v}) -> chrono -> {back:?} ({})", back.0));
                            return;
                        }
                    }
                    ctx.count("calendar_roundtrips_ok");
                    ctx.distinct(&format!("cal|{u:?}|{}|{}", c.year(), c.month()));
                } else {
                    ctx.count(if nat { "nat_calendar_none_ok" } else { "beyond_calendar_range" });
                }
            },
        }
    });
}

fn nat_absorbing(ctx: &mut Ctx, rng: &mut Rng) {
    let d_ok = TimeDelta::from(Duration::seconds(rng.range_i64(-100_000, 100_000)));
    let d_mo = TimeDelta { months: rng.range_i64(-20, 20) as i32, inner: Duration::seconds(5) };
    let d_nat = TimeDelta::nat();
    let k = rng.range_i64(-5, 5) as i32;
    let mut chk = |ctx: &mut Ctx, what: &str, r: Result<bool, String>| {
        ctx.evaluations += 1;
        ctx.events += 1;
        match r {
            Ok(true) => {
                ctx.count("nat_absorbed_ok");
                ctx.distinct(&format!("nat|{what}"));
            },
            Ok(false) => ctx.violation(&format!("nat_not_absorbed/{what}"), || format!("{what} with a NaT operand is not NaT")),
            Err(p) => ctx.violation(&format!("nat_op_panics/{what}/{}", panic_key(&p)), || format!("{what} with a NaT operand panics: {p}")),
        }
    };
    for u in UNITS {
        with_unit!(u, A => {
            let t_ok = DateTime::<A>::new(rng.range_i64(-2_000_000_000, 2_000_000_000));
            let t_nat = DateTime::<A>::nat();
            chk(ctx, &format!("DateTime<{u:?}>(NaT) + d"), catch(|| (t_nat + d_ok).is_nat()));
            chk(ctx, &format!("DateTime<{u:?}>(NaT) + months"), catch(|| (t_nat + d_mo).is_nat()));
            chk(ctx, &format!("DateTime<{u:?}> + TimeDelta(NaT)"), catch(|| (t_ok + d_nat).is_nat()));
            chk(ctx, &format!("DateTime<{u:?}>(NaT) - d"), catch(|| (t_nat - d_ok).is_nat()));
            chk(ctx, &format!("DateTime<{u:?}> - TimeDelta(NaT)"), catch(|| (t_ok - d_nat).is_nat()));
            chk(ctx, &format!("DateTime<{u:?}>(NaT) - DateTime"), catch(|| (t_nat - t_ok).is_nat()));
            chk(ctx, &format!("DateTime<{u:?}> - DateTime(NaT)"), catch(|| (t_ok - t_nat).is_nat()));
            // both operands null: equal raw sentinels must not look like "equal instants"
            chk(ctx, &format!("DateTime<{u:?}>(NaT) - DateTime(NaT)"), catch(|| (t_nat - t_nat).is_nat()));
            chk(ctx, &format!("DateTime<{u:?}>(NaT) + TimeDelta(NaT)"), catch(|| (t_nat + d_nat).is_nat()));
            chk(ctx, &format!("DateTime<{u:?}>(NaT) - TimeDelta(NaT)"), catch(|| (t_nat - d_nat).is_nat()));
            chk(ctx, &format!("DateTime<{u:?}>(NaT).duration_trunc"), catch(|| t_nat.duration_trunc(TimeDelta::from(Duration::hours(1))).is_nat()));
        });
    }
    chk(ctx, "-TimeDelta(NaT)", catch(|| (-d_nat).is_nat()));
    chk(ctx, "TimeDelta(NaT) + d", catch(|| (d_nat + d_ok).is_nat()));
    chk(ctx, "d + TimeDelta(NaT)", catch(|| (d_mo + d_nat).is_nat()));
    chk(ctx, "TimeDelta(NaT) - d", catch(|| (d_nat - d_ok).is_nat()));
    chk(ctx, "d - TimeDelta(NaT)", catch(|| (d_ok - d_nat).is_nat()));
    chk(ctx, "TimeDelta(NaT) + TimeDelta(NaT)", catch(|| (d_nat + d_nat).is_nat()));
    chk(ctx, "TimeDelta(NaT) - TimeDelta(NaT)", catch(|| (d_nat - d_nat).is_nat()));
    chk(ctx, "TimeDelta(NaT) * 0", catch(|| (d_nat * 0).is_nat()));
    chk(ctx, "TimeDelta(NaT) * k", catch(|| (d_nat * k).is_nat()));
    let tm = Time::from_hms(rng.range_i64(0, 23), rng.range_i64(0, 59), rng.range_i64(0, 59));
    chk(ctx, "Time + TimeDelta(NaT)", catch(|| (tm + d_nat).is_nat()));
    chk(ctx, "Time - TimeDelta(NaT)", catch(|| (tm - d_nat).is_nat()));
    chk(ctx, "Time(NaT) + TimeDelta(NaT)", catch(|| (Time::nat() + d_nat).is_nat()));
    chk(ctx, "Time(NaT) - TimeDelta(NaT)", catch(|| (Time::nat() - d_nat).is_nat()));
    chk(ctx, "Time(NaT) + d", catch(|| (Time::nat() + d_ok).is_nat()));
    chk(ctx, "Time(NaT) - d", catch(|| (Time::nat() - d_ok).is_nat()));
}

fn stamps(rng: &mut Rng, u: U) -> Vec<i64> {
    let mut v: Vec<i64> = vec![0, 1, -1, i64::MIN, i64::MAX, i64::MIN + 1];
    for r in [1_000i64, 1_000_000, 1_000_000_000] {
        for s in [1i64, -1] {
            v.extend([s * (r - 1), s * r, s * r + 1, s * r - 1, s * (7 * r + 3)]);
        }
    }
    // the chrono-representable range of the unit and its ends
    let (lo, hi) = match u {
        U::S => (-8_334_600_000_000i64, 8_210_200_000_000i64),
        U::Ms => (-8_334_600_000_000_000, 8_210_200_000_000_000),
        _ => (i64::MIN + 2, i64::MAX),
    };
    v.extend([lo, lo + 1, hi, hi - 1]);
    for _ in 0..40 {
        v.push(rng.range_i64(lo, hi));
        // ordinary dates 1678..2262 in this unit
        let secs = rng.range_i64(-9_214_646_400, 9_214_646_400);
        let sub = rng.range_i64(0, u.per_sec() as i64 - 1);
        v.push(secs.saturating_mul(u.per_sec() as i64).saturating_add(sub));
    }
    v
}

fn main() {
    let mut ctx = Ctx::from_args("C16");
    let reps = ctx.cbudget(30, 600);
    for _ in 0..reps {
        if let Some(mut rng) = ctx.random_case() {
            for from in UNITS {
                for v in stamps(&mut rng, from) {
                    for to in UNITS {
                        unit_pair(&mut ctx, from, to, v);
                    }
                    calendar_roundtrip(&mut ctx, from, v);
                }
            }
            for _ in 0..10 {
                nat_absorbing(&mut ctx, &mut rng);
            }
        }
    }
    std::process::exit(ctx.finish());
}
