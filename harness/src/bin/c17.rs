//! C17 — date-time, duration and time-of-day arithmetic obeys its inverse laws.
use tevec::export::chrono::{DateTime as CrDateTime, Datelike, Duration, Months, NaiveDate, NaiveTime, Timelike, Utc};
use tevec::prelude::{DateTime, Time, TimeDelta, unit};
use tvmon::ctx::{Ctx, catch, panic_key};
use tvmon::rng::Rng;

macro_rules! with_unit {
    ($u:expr, $T:ident => $body:expr) => {
        match $u {
            0 => {
                type $T = unit::Second;
                $body
            },
            1 => {
                type $T = unit::Millisecond;
                $body
            },
            2 => {
                type $T = unit::Microsecond;
                $body
            },
            _ => {
                type $T = unit::Nanosecond;
                $body
            },
        }
    };
}
const UNAME: [&str; 4] = ["s", "ms", "us", "ns"];
const PER_SEC: [i64; 4] = [1, 1_000, 1_000_000, 1_000_000_000];

fn law(ctx: &mut Ctx, name: &str, key: String, r: Result<Result<(), String>, String>) {
    ctx.evaluations += 1;
    ctx.events += 1;
    match r {
        Ok(Ok(())) => {
            ctx.count(&format!("ok.{name}"));
            ctx.distinct(&key);
            ctx.sample(|| format!("law {name} held on case {key} (and on every other generated case counted under ok.{name})"));
        },
        Ok(Err(d)) => ctx.violation(name, || d),
        Err(p) => ctx.violation(&format!("{name}/panic/{}", panic_key(&p)), || format!("{p}; case {key}")),
    }
}

/// random instant 1678..2262 expressed in unit `u`
fn instant(rng: &mut Rng, u: usize) -> i64 {
    // 1679..2260: every unit (incl. ns) stays in range after adding up to +-400 days
    let secs = rng.range_i64(-9_180_000_000, 9_180_000_000);
    let sub = if rng.chance(0.2) { 0 } else { rng.range_i64(0, PER_SEC[u] - 1) };
    secs * PER_SEC[u] + sub
}

/// month-free duration that is a multiple of the resolution of unit `u` (so that it is
/// representable at that resolution), built from every combination of units and signs
fn duration(rng: &mut Rng, u: usize) -> (Duration, String) {
    let res_ns: i64 = 1_000_000_000 / PER_SEC[u];
    let parts: [(&str, i64); 8] = [("ns", 1), ("us", 1_000), ("ms", 1_000_000), ("s", 1_000_000_000), ("m", 60_000_000_000), ("h", 3_600_000_000_000), ("d", 86_400_000_000_000), ("w", 604_800_000_000_000)];
    let mut total: i128 = 0;
    let mut desc = String::new();
    let nterms = rng.range_usize(1, 4);
    for _ in 0..nterms {
        let (name, ns) = *rng.pick(&parts);
        if ns < res_ns {
            continue;
        }
        let k = rng.range_i64(-40, 40);
        total += k as i128 * ns as i128;
        desc.push_str(&format!("{k}{name}"));
    }
    let total = total.clamp(-(400i128 * 86_400_000_000_000), 400i128 * 86_400_000_000_000) as i64;
    (Duration::nanoseconds(total), if desc.is_empty() { "0".into() } else { desc })
}

fn datetime_laws(ctx: &mut Ctx, rng: &mut Rng) {
    for u in 0..4usize {
        let (d, dd) = duration(rng, u);
        let td = TimeDelta::from(d);
        let raw = instant(rng, u);
        let raw2 = instant(rng, u);
        with_unit!(u, A => {
            let t = DateTime::<A>::new(raw);
            let b = DateTime::<A>::new(raw2);
            let key = format!("{}|{}", UNAME[u], raw.signum());
            law(ctx, "add_then_sub", format!("as|{key}|{}", dd.len()), catch(|| {
                let r = (t + td) - td;
                if r == t { Ok(()) } else { Err(format!("(t + d) - d = {r:?} ({}) for t = {t:?} ({raw}) [{}], d = {dd}", r.0, UNAME[u])) }
            }));
            law(ctx, "sub_then_add", format!("sa|{key}|{}", dd.len()), catch(|| {
                let r = (t - td) + td;
                if r == t { Ok(()) } else { Err(format!("(t - d) + d = {r:?} ({}) for t = {t:?} ({raw}) [{}], d = {dd}", r.0, UNAME[u])) }
            }));
            law(ctx, "difference_added_back", format!("db|{key}"), catch(|| {
                let diff = t - b;
                let r = b + diff;
                if r == t && diff.months == 0 { Ok(()) } else { Err(format!("b + (a - b) = {r:?} for a = {t:?}, b = {b:?} [{}], a - b = {diff:?}", UNAME[u])) }
            }));
            // adding calendar months agrees with chrono (end-of-month clamping)
            let m = rng.range_i64(-1200, 1200) as i32;
            law(ctx, "add_months", format!("am|{key}|{}", m.signum()), catch(|| {
                let want: Option<CrDateTime<Utc>> = t.as_cr().and_then(|c| if m >= 0 { c.checked_add_months(Months::new(m as u32)) } else { c.checked_sub_months(Months::new((-m) as u32)) });
                let Some(want) = want else { return Ok(()) };
                if !(1678..=2261).contains(&want.year()) {
                    return Ok(());
                }
                let got = t + TimeDelta { months: m, inner: Duration::zero() };
                if got.as_cr() == Some(want) || DateTime::<A>::from(want) == got { Ok(()) } else { Err(format!("{t:?} + {m} months = {got:?}, chrono says {want:?} [{}]", UNAME[u])) }
            }));
            // subtracting calendar months: t - m months is t + (-m) months (negation in the duration group)
            law(ctx, "sub_months", format!("sm|{key}|{}", m.signum()), catch(|| {
                let want: Option<CrDateTime<Utc>> = t.as_cr().and_then(|c| if m >= 0 { c.checked_sub_months(Months::new(m as u32)) } else { c.checked_add_months(Months::new((-m) as u32)) });
                let Some(want) = want else { return Ok(()) };
                if !(1678..=2261).contains(&want.year()) {
                    return Ok(());
                }
                let got = t - TimeDelta { months: m, inner: Duration::zero() };
                if got.as_cr() == Some(want) || DateTime::<A>::from(want) == got { Ok(()) } else { Err(format!("{t:?} - {m} months = {got:?}, chrono says {want:?} [{}]", UNAME[u])) }
            }));
        });
    }
}

fn timedelta_laws(ctx: &mut Ctx, rng: &mut Rng) {
    let mk = |rng: &mut Rng| TimeDelta { months: rng.range_i64(-1200, 1200) as i32, inner: duration(rng, 3).0 };
    let (a, b, c) = (mk(rng), mk(rng), mk(rng));
    let (k, m) = (rng.range_i64(-30, 30) as i32, rng.range_i64(-30, 30) as i32);
    let zero = TimeDelta { months: 0, inner: Duration::zero() };
    let key = format!("{}|{}", a.months.signum(), k.signum());
    law(ctx, "td_inverse", format!("ti|{key}"), catch(|| if a + (-a) == zero && (a - a) == zero { Ok(()) } else { Err(format!("a + (-a) = {:?} for a = {a:?}", a + (-a))) }));
    law(ctx, "td_identity", format!("t0|{key}"), catch(|| if a + zero == a && -(-a) == a { Ok(()) } else { Err(format!("a + 0 = {:?}, -(-a) = {:?} for a = {a:?}", a + zero, -(-a))) }));
    law(ctx, "td_associative", format!("ta|{key}"), catch(|| if (a + b) + c == a + (b + c) { Ok(()) } else { Err(format!("(a+b)+c != a+(b+c) for {a:?} {b:?} {c:?}")) }));
    law(ctx, "td_commutative", format!("tc|{key}"), catch(|| if a + b == b + a { Ok(()) } else { Err(format!("a+b != b+a for {a:?} {b:?}")) }));
    law(ctx, "td_sub_is_add_neg", format!("ts|{key}"), catch(|| if a - b == a + (-b) { Ok(()) } else { Err(format!("a-b != a+(-b) for {a:?} {b:?}")) }));
    law(ctx, "td_scale_distributes_over_add", format!("td|{key}"), catch(|| if (a + b) * k == a * k + b * k { Ok(()) } else { Err(format!("(a+b)*{k} != a*{k} + b*{k} for {a:?} {b:?}")) }));
    law(ctx, "td_scale_distributes_over_scalars", format!("tk|{key}"), catch(|| if a * (k + m) == a * k + a * m { Ok(()) } else { Err(format!("a*({k}+{m}) != a*{k} + a*{m} for {a:?}")) }));
    law(ctx, "td_scale_one_zero", format!("t1|{key}"), catch(|| if a * 1 == a && a * 0 == zero && a * -1 == -a { Ok(()) } else { Err(format!("a*1, a*0 or a*-1 wrong for {a:?}")) }));
}

fn time_laws(ctx: &mut Ctx, rng: &mut Rng) {
    let (h, mi, s) = (rng.range_i64(0, 23), rng.range_i64(0, 59), rng.range_i64(0, 59));
    let sub_kind = rng.below(4);
    let (t, nano): (Time, i64) = match sub_kind {
        0 => (Time::from_hms(h, mi, s), 0),
        1 => {
            let ms = rng.range_i64(0, 999);
            (Time::from_hms_milli(h, mi, s, ms), ms * 1_000_000)
        },
        2 => {
            let us = rng.range_i64(0, 999_999);
            (Time::from_hms_micro(h, mi, s, us), us * 1_000)
        },
        _ => {
            let ns = rng.range_i64(0, 999_999_999);
            (Time::from_hms_nano(h, mi, s, ns), ns)
        },
    };
    let key = format!("{h}|{sub_kind}");
    law(ctx, "time_components", format!("tc|{key}"), catch(|| {
        let got = (t.hour() as i64, t.minute() as i64, t.second() as i64, t.nanosecond() as i64);
        if got == (h, mi, s, nano) { Ok(()) } else { Err(format!("Time built from {h}:{mi}:{s}+{nano}ns reports {got:?}")) }
    }));
    law(ctx, "time_chrono_roundtrip", format!("tr|{key}"), catch(|| {
        let nt = NaiveTime::from_hms_nano_opt(h as u32, mi as u32, s as u32, nano as u32).unwrap();
        let c = t.as_cr();
        if c != Some(nt) {
            return Err(format!("{t:?}.as_cr() = {c:?}, expected {nt:?}"));
        }
        let back = Time::from_cr(&nt);
        if back == t { Ok(()) } else { Err(format!("Time::from_cr({nt:?}) = {back:?}, expected {t:?}")) }
    }));
    law(ctx, "time_from_seconds", format!("ts|{key}"), catch(|| {
        let secs = h * 3600 + mi * 60 + s;
        let t2 = Time::from_num_seconds_from_midnight(secs, nano);
        if t2 == t { Ok(()) } else { Err(format!("from_num_seconds_from_midnight({secs},{nano}) = {t2:?}, expected {t:?}")) }
    }));
    // shifting by a month-free duration is exact and invertible
    let d_ns = rng.range_i64(-86_399_000_000_000, 86_399_000_000_000);
    let d = TimeDelta::from(Duration::nanoseconds(d_ns));
    law(ctx, "time_shift_exact", format!("tx|{key}|{}", d_ns.signum()), catch(|| {
        let p = t + d;
        let m = t - d;
        if p.0 != t.0 + d_ns || m.0 != t.0 - d_ns {
            return Err(format!("{t:?} +- {d_ns}ns = {p:?} / {m:?}"));
        }
        if (p - d) != t || (m + d) != t {
            return Err(format!("({t:?} + d) - d = {:?}, ({t:?} - d) + d = {:?}", p - d, m + d));
        }
        Ok(())
    }));
    // `with_*` setters agree with chrono
    law(ctx, "time_with_setters", format!("tw|{key}"), catch(|| {
        let nh = rng.range_i64(0, 25) as u32;
        let nt = NaiveTime::from_hms_nano_opt(h as u32, mi as u32, s as u32, nano as u32).unwrap();
        let want = nt.with_hour(nh).map(|x| Time::from_cr(&x));
        let got = t.with_hour(nh);
        if got == want { Ok(()) } else { Err(format!("{t:?}.with_hour({nh}) = {got:?}, chrono {want:?}")) }
    }));
}

fn trunc_laws(ctx: &mut Ctx, rng: &mut Rng) {
    for u in 0..4usize {
        let raw = instant(rng, u);
        with_unit!(u, A => {
            let t = DateTime::<A>::new(raw);
            // month-free: greatest multiple of d (counted from the epoch) not after t
            let res_ns: i128 = (1_000_000_000 / PER_SEC[u]) as i128;
            let cands: [i128; 12] = [1, 1_000, 1_000_000, 1_000_000_000, 5_000_000_000, 60_000_000_000, 900_000_000_000, 3_600_000_000_000, 86_400_000_000_000, 604_800_000_000_000, 7_000_000, 13 * 3_600_000_000_000];
            let d_ns = *rng.pick(&cands);
            if d_ns >= res_ns && d_ns % res_ns == 0 {
                law(ctx, "trunc_month_free", format!("tm|{}|{d_ns}|{}", UNAME[u], raw.signum()), catch(|| {
                    let t_ns: i128 = raw as i128 * res_ns;
                    let want_ns = t_ns.div_euclid(d_ns) * d_ns;
                    let want = (want_ns / res_ns) as i64;
                    let got = t.duration_trunc(TimeDelta::from(Duration::nanoseconds(d_ns as i64)));
                    if got.0 == want { Ok(()) } else { Err(format!("{t:?} ({raw}) [{}] truncated to {d_ns}ns = {got:?} ({}), expected {want}", UNAME[u], got.0)) }
                }));
            }
            // whole months dividing 12: first instant of the month / quarter / half-year / year
            let k = *rng.pick(&[1i32, 2, 3, 4, 6, 12]);
            law(ctx, "trunc_months", format!("tM|{}|{k}|{}", UNAME[u], raw.signum()), catch(|| {
                let c = t.as_cr().unwrap();
                let m0 = c.month0() as i32;
                let start_m0 = m0 - m0 % k;
                let want_c = NaiveDate::from_ymd_opt(c.year(), start_m0 as u32 + 1, 1).unwrap().and_hms_opt(0, 0, 0).unwrap().and_utc();
                let want: DateTime<A> = want_c.into();
                let got = t.duration_trunc(TimeDelta { months: k, inner: Duration::zero() });
                if got == want { Ok(()) } else { Err(format!("{t:?} [{}] truncated to {k} month(s) = {got:?}, expected {want:?}", UNAME[u])) }
            }));
        });
    }
}

fn nat_laws(ctx: &mut Ctx, rng: &mut Rng) {
    let d = TimeDelta::from(Duration::seconds(rng.range_i64(-1000, 1000)));
    law(ctx, "nat_operands", "nat".into(), catch(|| {
        let t = DateTime::<unit::Nanosecond>::nat();
        if !(t + d).is_nat() || !(t - d).is_nat() || !(t - t).is_nat() || !(Time::nat() + d).is_nat() || !(TimeDelta::nat() * 3).is_nat() || !t.duration_trunc(d).is_nat() {
            Err("an operation with a NaT operand did not give NaT".to_string())
        } else {
            Ok(())
        }
    }));
}

fn main() {
    let mut ctx = Ctx::from_args("C17");
    let n = ctx.cbudget(20000, 400000);
    for _ in 0..n {
        if let Some(mut rng) = ctx.random_case() {
            datetime_laws(&mut ctx, &mut rng);
            timedelta_laws(&mut ctx, &mut rng);
            time_laws(&mut ctx, &mut rng);
            trunc_laws(&mut ctx, &mut rng);
            nat_laws(&mut ctx, &mut rng);
        }
    }
    // structured: every hour / minute boundary and the ends of the day
    for h in 0..24i64 {
        for (mi, s) in [(0i64, 0i64), (59, 59), (30, 0)] {
            if ctx.sweep_case().is_some() {
                let t = Time::from_hms(h, mi, s);
                law(&mut ctx, "time_components", format!("grid|{h}|{mi}"), catch(|| {
                    if (t.hour() as i64, t.minute() as i64, t.second() as i64, t.nanosecond()) == (h, mi, s, 0) { Ok(()) } else { Err(format!("{t:?} from {h}:{mi}:{s}")) }
                }));
            }
        }
    }
    std::process::exit(ctx.finish());
}
