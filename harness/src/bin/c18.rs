//! C18 — parsers are total and round-trip with their formatters.
use std::str::FromStr;

use tevec::export::chrono::Duration;
use tevec::prelude::{DateTime, Time, TimeDelta, unit};
use tvmon::ctx::{Ctx, catch, panic_key};
use tvmon::rng::Rng;

const UNITS: [(&str, i128, bool); 10] = [
    ("ns", 1, false),
    ("us", 1_000, false),
    ("ms", 1_000_000, false),
    ("s", 1_000_000_000, false),
    ("m", 60_000_000_000, false),
    ("h", 3_600_000_000_000, false),
    ("d", 86_400_000_000_000, false),
    ("w", 604_800_000_000_000, false),
    ("mo", 1, true),
    ("y", 12, true),
];

fn short(s: &str) -> String {
    let t: String = s.chars().take(80).collect();
    format!("{t:?}")
}

/// Totality: any string yields a value or an error, never a panic.
fn total(ctx: &mut Ctx, s: &str, class: &str) {
    ctx.evaluations += 1;
    ctx.events += 6;
    ctx.count(&format!("class.{class}"));
    let mut oks = 0;
    let mut run = |ctx: &mut Ctx, name: &str, r: Result<bool, String>| match r {
        Ok(ok) => {
            if ok {
                oks += 1;
            }
        },
        Err(p) => ctx.violation(&format!("{name}/panic/{}", panic_key(&p)), || format!("{name}({}) panics: {p} [generator class {class}]", short(s))),
    };
    run(ctx, "TimeDelta::parse", catch(|| TimeDelta::parse(s).is_ok()));
    run(ctx, "TimeDelta::from_str", catch(|| TimeDelta::from_str(s).is_ok()));
    run(ctx, "DateTime<ns>::parse", catch(|| DateTime::<unit::Nanosecond>::parse(s, None).is_ok()));
    run(ctx, "DateTime<s>::from_str", catch(|| DateTime::<unit::Second>::from_str(s).is_ok()));
    run(ctx, "DateTime<ms>::parse(fmt)", catch(|| DateTime::<unit::Millisecond>::parse(s, Some("%Y-%m-%d %H:%M:%S")).is_ok()));
    run(ctx, "DateTime<us>::parse", catch(|| DateTime::<unit::Microsecond>::parse(s, None).is_ok()));
    run(ctx, "Time::parse", catch(|| Time::parse(s, None).is_ok()));
    run(ctx, "Time::parse(fmt)", catch(|| Time::parse(s, Some("%H:%M:%S")).is_ok()));
    ctx.count_n("total.ok_results", oks);
    ctx.count_n("total.err_results", 8 - oks);
    ctx.distinct(&format!("{class}|{}|{}", s.len().min(40), tvmon::rng::hash_str(s) % 4096));
}

fn digits(rng: &mut Rng, n: usize) -> String {
    (0..n).map(|i| char::from(b'0' + if i == 0 { rng.range_usize(1, 9) } else { rng.below(10) } as u8)).collect()
}

fn gen_duration_like(rng: &mut Rng) -> String {
    let mut s = String::new();
    for _ in 0..rng.range_usize(0, 6) {
        match rng.below(10) {
            0 => s.push_str(&"-".repeat(rng.range_usize(1, 3))),
            1 => s.push('+'),
            2 => s.push(' '),
            _ => {},
        }
        let nd = *rng.pick(&[1usize, 1, 2, 3, 5, 10, 18, 19, 20, 25]);
        if !rng.chance(0.1) {
            s.push_str(&digits(rng, nd));
        }
        let u = match rng.below(14) {
            0 => "x",
            1 => "",
            2 => "dd",
            3 => "é",
            4 => "M",
            5 => "mos",
            _ => UNITS[rng.below(10)].0,
        };
        s.push_str(u);
    }
    s
}

fn gen_datetime_like(rng: &mut Rng) -> String {
    let y = *rng.pick(&[0i64, 1, 99, 1000, 1677, 1678, 1969, 1970, 2020, 2262, 2263, 3000, 9999, 10000, 262143, 300000]);
    let (mo, d) = (rng.range_i64(0, 14), rng.range_i64(0, 33));
    let (h, mi, s) = (rng.range_i64(0, 26), rng.range_i64(0, 62), rng.range_i64(0, 62));
    match rng.below(12) {
        0 => format!("{y:04}-{mo:02}-{d:02} {h:02}:{mi:02}:{s:02}"),
        1 => {
            let nd = *rng.pick(&[1usize, 3, 6, 9, 12]);
            format!("{y:04}-{mo:02}-{d:02} {h:02}:{mi:02}:{s:02}.{}", digits(rng, nd))
        },
        2 => format!("{y:04}-{mo:02}-{d:02}"),
        3 => format!("{y:04}{mo:02}{d:02}"),
        4 => format!("{y:04}{mo:02}{d:02} {h:02}{mi:02}{s:02}"),
        5 => format!("{d:02}/{mo:02}/{y:04}"),
        6 => format!("{y:04}{mo:02}{d:02}{h:02}{mi:02}{s:02}"),
        7 => format!("{y:04}/{mo:02}/{d:02} {h:02}:{mi:02}:{s:02}"),
        8 => format!("+{y}-{mo:02}-{d:02}"),
        9 => format!("-{y}-{mo:02}-{d:02} 00:00:00"),
        10 => format!("{h:02}:{mi:02}:{s:02}"),
        _ => format!("{h}:{mi}:{s}.{}", digits(rng, 4)),
    }
}

fn mutate(rng: &mut Rng, s: &str) -> String {
    let mut chars: Vec<char> = s.chars().collect();
    let alphabet: Vec<char> = "0123456789-+ :./dhmsywnou\u{e9}\u{4e2d}\u{1F600}\0\tT Z".chars().collect();
    for _ in 0..rng.range_usize(1, 3) {
        let pos = rng.below(chars.len() + 1);
        match rng.below(4) {
            0 => chars.insert(pos, *rng.pick(&alphabet)),
            1 if !chars.is_empty() => {
                chars.remove(pos.min(chars.len() - 1));
            },
            2 if !chars.is_empty() => {
                let p = pos.min(chars.len() - 1);
                chars[p] = *rng.pick(&alphabet);
            },
            _ => {
                let c = *rng.pick(&alphabet);
                for _ in 0..rng.range_usize(1, 4) {
                    chars.insert(pos.min(chars.len()), c);
                }
            },
        }
    }
    chars.into_iter().collect()
}

/// well-formed duration strings: result = sum of the terms
fn wellformed(ctx: &mut Ctx, rng: &mut Rng) {
    let nterms = rng.range_usize(1, 6);
    let mut s = String::new();
    let mut fixed: i128 = 0;
    let mut months: i128 = 0;
    let big = rng.chance(0.08);
    let mut any_term_beyond_i64 = false;
    for _ in 0..nterms {
        let (u, mult, is_m) = UNITS[rng.below(10)];
        let mag: i128 = if big {
            match rng.below(3) {
                0 => i64::MAX as i128,
                1 => 10i128.pow(rng.range_usize(15, 21) as u32) + rng.below(1000) as i128,
                _ => rng.range_i64(1, 5_000_000_000) as i128,
            }
        } else if is_m {
            rng.range_i64(0, 2000) as i128
        } else {
            rng.range_i64(0, 1_000_000) as i128
        };
        let sign = match rng.below(5) {
            0 => "-",
            1 => "+",
            _ => "",
        };
        let v = if sign == "-" { -mag } else { mag };
        if v > i64::MAX as i128 || v < i64::MIN as i128 {
            any_term_beyond_i64 = true;
        }
        s.push_str(&format!("{sign}{mag}{u}"));
        if is_m {
            months += v * mult;
        } else {
            fixed += v * mult;
        }
    }
    ctx.evaluations += 1;
    ctx.events += 1;
    let max_ns: i128 = (i64::MAX as i128 / 1000) * 1_000_000_000; // chrono's range is +-i64::MAX milliseconds
    let in_range = months.abs() <= i32::MAX as i128 && fixed.abs() < max_ns && !any_term_beyond_i64;
    match catch(|| TimeDelta::parse(&s)) {
        Err(p) => ctx.violation(&format!("TimeDelta::parse/panic/{}", panic_key(&p)), || format!("well-formed duration {} panics: {p}", short(&s))),
        Ok(Err(e)) => {
            if in_range && !big {
                ctx.violation("TimeDelta::parse/wellformed_rejected", || format!("well-formed duration {} rejected: {e}", short(&s)));
            } else {
                ctx.count("wellformed.out_of_range_err");
            }
        },
        Ok(Ok(td)) => {
            let got_fixed: Option<i128> = td.inner.num_nanoseconds().map(|v| v as i128).or_else(|| {
                // beyond i64 nanoseconds: reconstruct from seconds + sub-second part
                Some(td.inner.num_seconds() as i128 * 1_000_000_000 + td.inner.subsec_nanos() as i128)
            });
            if td.months as i128 == months && got_fixed == Some(fixed) {
                ctx.count("wellformed.ok");
                ctx.distinct(&format!("wf|{nterms}|{}|{}", months.signum(), fixed.signum()));
                ctx.sample(|| format!("TimeDelta::parse({}) = months {} + {} ns = sum of its terms", short(&s), td.months, fixed));
            } else {
                let cls = if in_range { "wrong_sum" } else { "wrong_value_out_of_range" };
                ctx.violation(&format!("TimeDelta::parse/{cls}"), || {
                    format!("{} parsed to months={} fixed_ns={:?}, expected months={months} fixed_ns={fixed}", short(&s), td.months, got_fixed)
                });
            }
        },
    }
    let _ = Duration::zero();
}

/// formatting a valid date-time and parsing the text back returns the same instant
fn roundtrip(ctx: &mut Ctx, rng: &mut Rng) {
    macro_rules! rt {
        ($U:ty, $per_sec:expr, $uname:expr) => {{
            // ordinary dates, years 1000..9999 for the width-sensitive formats, and the ends of the ns range
            let secs = match rng.below(10) {
                0 => rng.range_i64(-9_223_372_035, 9_223_372_035),
                1 => *rng.pick(&[-9_223_372_035i64, 9_223_372_035, 0, -1, 1]),
                _ => rng.range_i64(-30_610_224_000, 253_402_300_799),
            };
            let secs = if $uname == "ns" { secs.clamp(-9_223_372_035, 9_223_372_035) } else { secs };
            // sub-second part: zero, any, or of one particular magnitude (a single tick, below a
            // microsecond, below a millisecond, whole milliseconds) - a printer that drops or
            // shortens the fraction must be visible at every resolution
            let ps: i64 = $per_sec;
            let sub = match rng.below(8) {
                0 | 1 => 0,
                2 => 1.min(ps - 1),
                3 => rng.range_i64(0, (ps / 1_000_000).max(1) - 1).max(1.min(ps - 1)),
                4 => rng.range_i64(0, (ps / 1_000).max(1) - 1).max(1.min(ps - 1)),
                5 => (rng.range_i64(0, 999) * (ps / 1_000)).min(ps - 1),
                _ => rng.range_i64(0, ps - 1),
            };
            let raw: i64 = secs * $per_sec + sub;
            let t = DateTime::<$U>::new(raw);
            ctx.evaluations += 1;
            // default format
            let r = catch(|| {
                let s = t.strftime(None);
                (s.clone(), DateTime::<$U>::parse(&s, None), s.parse::<DateTime<$U>>())
            });
            match r {
                Err(p) => ctx.violation(&format!("roundtrip/panic/{}", panic_key(&p)), || format!("DateTime<{}>({raw}): {p}", $uname)),
                Ok((s, a, b)) => {
                    ctx.events += 2;
                    match (a, b) {
                        (Ok(x), Ok(y)) if x == t && y == t => {
                            ctx.sample(|| format!("DateTime<{}>({raw}) -> {s:?} -> parses back to the same instant", $uname));
                            ctx.count("roundtrip.default_ok");
                            ctx.distinct(&format!("rt|{}|{}", $uname, secs / 31_557_600 / 25));
                        },
                        (x, y) => ctx.violation(&format!("roundtrip/default_format/{}", $uname), || {
                            format!("DateTime<{}>({raw}) formats as {s:?}, which parses back to {x:?} / {y:?}", $uname)
                        }),
                    }
                },
            }
            // listed formats that carry the needed fields (second resolution / date only)
            let four_digit_year = (-30_610_224_000..=253_402_300_799).contains(&secs) && ($uname != "ns" || secs.abs() < 9_223_000_000);
            let whole = DateTime::<$U>::new(secs * $per_sec);
            let day = DateTime::<$U>::new(if four_digit_year { secs.div_euclid(86_400) * 86_400 * $per_sec } else { 0 });
            let fmts: [(&str, bool); 10] = [
                ("%Y-%m-%d %H:%M:%S", false),
                ("%Y-%m-%d", true),
                ("%Y%m%d", true),
                ("%Y%m%d %H%M%S", false),
                ("%d/%m/%Y", true),
                ("%Y%m%d%H%M%S", false),
                ("%Y/%m/%d", true),
                ("%Y/%m/%d %H:%M:%S", false),
                // these two listed formats contain a literal 'H': they carry no hour field, so only
                // midnight instants can round-trip through them
                ("%d/%m/%Y H%M%S", true),
                ("%d/%m/%YH%M%S", true),
            ];
            if four_digit_year {
                for (f, date_only) in fmts {
                    let v = if date_only { day } else { whole };
                    ctx.evaluations += 1;
                    ctx.events += 2;
                    let r = catch(|| {
                        let s = v.strftime(Some(f));
                        (s.clone(), DateTime::<$U>::parse(&s, Some(f)), DateTime::<$U>::parse(&s, None))
                    });
                    match r {
                        Err(p) => ctx.violation(&format!("roundtrip/panic/{}", panic_key(&p)), || format!("DateTime<{}>({}) with format {f}: {p}", $uname, v.0)),
                        Ok((s, a, b)) => {
                            let ok_explicit = matches!(&a, Ok(x) if *x == v);
                            // the "H%M%S" formats contain a literal H and are in the rule list too
                            let ok_auto = matches!(&b, Ok(x) if *x == v);
                            if ok_explicit && ok_auto {
                                ctx.count("roundtrip.listed_ok");
                            } else {
                                ctx.violation(&format!("roundtrip/listed_format/{}", f.replace('/', "_").replace(' ', "_")), || {
                                    format!("DateTime<{}>({}) formats with {f:?} as {s:?}; parse(fmt) = {a:?}, parse(auto) = {b:?}", $uname, v.0)
                                });
                            }
                        },
                    }
                }
            }
        }};
    }
    rt!(unit::Second, 1i64, "s");
    rt!(unit::Millisecond, 1_000i64, "ms");
    rt!(unit::Microsecond, 1_000_000i64, "us");
    rt!(unit::Nanosecond, 1_000_000_000i64, "ns");
}

fn main() {
    let mut ctx = Ctx::from_args("C18");
    // fixed corpus of known-tricky strings
    let corpus = [
        "", " ", "-", "--", "+", "d", "1", "123", "1d", "-1d", "+1d", "--1d", "1d-", "1d-d", "1dd", "1 d", " 1d", "1d ", "ab", "a1d", "1x", "1.5d", "1e3d",
        "é1d", "1é", "1dé", "中", "1d中2h", "😀", "99999999999999999999d", "9223372036854775807w", "9223372036854775807ns", "-9223372036854775808ns",
        "9223372036854775807y", "2147483648mo", "5000000000mo", "1mo1mo", "1y-12mo", "0d", "00001d", "1D", "1Mo", "NaT", "None", "nan", "\0", "1\0d", "1d\n",
        "2020-01-01", "2020-13-01", "2020-02-30", "20200101", "2020/01/01 25:00:00", "3000-01-01", "1600-01-01 00:00:00", "9999-12-31 23:59:59.999999999",
        "+10000-01-01", "-0001-01-01", "262143-12-31", "0000-00-00", "12:34:56", "24:00:00", "12:34:56.789", "12:34", "1:2:3",
    ];
    for s in corpus {
        if ctx.sweep_case().is_some() {
            total(&mut ctx, s, "corpus");
            // every single-character deletion / multi-byte insertion at every position
            let chars: Vec<char> = s.chars().collect();
            for i in 0..=chars.len() {
                for ins in ['é', '-', '9', ' ', 'd'] {
                    let mut c = chars.clone();
                    c.insert(i, ins);
                    let m: String = c.into_iter().collect();
                    total(&mut ctx, &m, "corpus_insert");
                }
                if i < chars.len() {
                    let mut c = chars.clone();
                    c.remove(i);
                    let m: String = c.into_iter().collect();
                    total(&mut ctx, &m, "corpus_delete");
                }
            }
        }
    }
    let n = ctx.cbudget(60000, 2000000);
    for _ in 0..n {
        if let Some(mut rng) = ctx.random_case() {
            match rng.below(6) {
                0 => {
                    let s = gen_duration_like(&mut rng);
                    total(&mut ctx, &s, "duration_grammar");
                },
                1 => {
                    let s = gen_duration_like(&mut rng);
                    let m = mutate(&mut rng, &s);
                    total(&mut ctx, &m, "duration_mutated");
                },
                2 => {
                    let s = gen_datetime_like(&mut rng);
                    total(&mut ctx, &s, "datetime_grammar");
                },
                3 => {
                    let s = gen_datetime_like(&mut rng);
                    let m = mutate(&mut rng, &s);
                    total(&mut ctx, &m, "datetime_mutated");
                },
                4 => {
                    let len = rng.range_usize(0, 12);
                    let s: String = (0..len).map(|_| char::from_u32(rng.range_usize(1, 0x2FFF) as u32).unwrap_or('x')).collect();
                    total(&mut ctx, &s, "random_unicode");
                },
                _ => {},
            }
            wellformed(&mut ctx, &mut rng);
            if rng.chance(0.3) {
                roundtrip(&mut ctx, &mut rng);
            }
        }
    }
    std::process::exit(ctx.finish());
}
