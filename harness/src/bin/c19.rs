//! C19 — generators and collectors build exactly the requested sequence.
use std::collections::VecDeque;

use tevec::export::ndarray::Array1;
use tevec::prelude::{
    TError, TIter, TResult, UninitRefMut, UninitVec, Vec1, Vec1Collect, Vec1Create, Vec1OptCollect, Vec1TryCollect, WriteTrustIter, terr,
};
use tvmon::ctx::{Ctx, catch, is_marked_panic, panic_key};
use tvmon::rng::Rng;
use tvmon::spy::{SpyOut, SpyUninit};

fn vp(ctx: &mut Ctx, name: &str, p: &str, d: String) {
    let k = if is_marked_panic(p) { "memory" } else { "panic" };
    ctx.violation(&format!("{name}/{k}/{}", panic_key(p)), || format!("{p}; {d}"));
}

// ---- range ---------------------------------------------------------------------------------

/// the arithmetic progression a, a+step, ... strictly before b in the direction of step
fn o_range_int(a: i128, b: i128, step: i128) -> Vec<i128> {
    let mut v = Vec::new();
    let mut x = a;
    if step > 0 {
        while x < b {
            v.push(x);
            x += step;
        }
    } else {
        while x > b {
            v.push(x);
            x += step;
        }
    }
    v
}

fn range_int_case(ctx: &mut Ctx, a: i64, b: i64, step: i64) {
    let want = o_range_int(a as i128, b as i128, step as i128);
    let d = || format!("range({a}, {b}, {step})");
    let cls = if want.is_empty() { "empty_span" } else if (b - a) % step != 0 { "non_divisible_span" } else { "divisible_span" };
    let mut judge = |ctx: &mut Ctx, ty: &str, r: Result<Vec<i128>, String>| {
        ctx.evaluations += 1;
        ctx.events += want.len() as u64 + 1;
        match r {
            Err(p) => {
                if is_marked_panic(&p) {
                    vp(ctx, "range", &p, format!("{} as {ty}", d()));
                } else {
                    ctx.violation(&format!("range/panic/{cls}/{ty}"), || format!("{p}; {} as {ty}", d()));
                }
            },
            Ok(g) if g == want => {
                ctx.sample(|| format!("{} as {ty} = {g:?} (the progression strictly before the end)", d()));
                ctx.count("range_int_ok");
                ctx.count(&format!("range_int_ok.{cls}"));
                ctx.distinct(&format!("ri|{ty}|{}|{}|{}", want.len().min(12), step.signum(), cls));
            },
            Ok(g) => ctx.violation(&format!("range/content/{cls}/{ty}"), || format!("{} as {ty} = {g:?}, expected {want:?}", d())),
        }
    };
    if (i32::MIN as i64..=i32::MAX as i64).contains(&a) {
        judge(ctx, "i32", catch(|| <Vec<i32> as Vec1Create<i32>>::range(Some(a as i32), b as i32, Some(step as i32)).into_iter().map(|v| v as i128).collect()));
        judge(ctx, "opt i32", catch(|| <Vec<Option<i32>> as Vec1Create<Option<i32>>>::range(Some(a as i32), b as i32, Some(step as i32)).into_iter().map(|v| v.unwrap() as i128).collect()));
    }
    judge(ctx, "i64", catch(|| <VecDeque<i64> as Vec1Create<i64>>::range(Some(a), b, Some(step)).into_iter().map(|v| v as i128).collect()));
    if a >= 0 && b >= 0 && step > 0 {
        judge(ctx, "usize", catch(|| <Array1<usize> as Vec1Create<usize>>::range(Some(a as usize), b as usize, Some(step as usize)).into_iter().map(|v| v as i128).collect()));
    }
    if a == 0 && step == 1 {
        judge(ctx, "i32 defaults", catch(|| <Vec<i32> as Vec1Create<i32>>::range(None, b as i32, None).into_iter().map(|v| v as i128).collect()));
    }
}

fn range_float_case(ctx: &mut Ctx, ak: i64, bk: i64, sk: i64, den: f64, dyadic: bool) {
    // a = ak/den, b = bk/den, step = sk/den: exact progression known in integers
    let want_k = o_range_int(ak as i128, bk as i128, sk as i128);
    let (a, b, s) = (ak as f64 / den, bk as f64 / den, sk as f64 / den);
    let d = || format!("range({a}, {b}, {s}) [f64, {}]", if dyadic { "dyadic" } else { "non-dyadic" });
    for (ty, r) in [
        ("f64", catch(|| <Vec<f64> as Vec1Create<f64>>::range(Some(a), b, Some(s)))),
        ("opt f64", catch(|| <Vec<Option<f64>> as Vec1Create<Option<f64>>>::range(Some(a), b, Some(s)).into_iter().map(|v| v.unwrap()).collect())),
        ("f32", catch(|| <Vec<f32> as Vec1Create<f32>>::range(Some(a as f32), b as f32, Some(s as f32)).into_iter().map(|v| v as f64).collect())),
    ] {
        if ty == "f32" && !dyadic {
            continue;
        }
        ctx.evaluations += 1;
        ctx.events += want_k.len() as u64 + 1;
        match r {
            Err(p) => vp(ctx, "range", &p, d()),
            Ok(g) => {
                // non-dyadic steps: the last element may be present or absent (one-element rounding band)
                let n_ok = if dyadic { g.len() == want_k.len() } else { (g.len() as i64 - want_k.len() as i64).abs() <= 1 };
                let vals_ok = g.iter().enumerate().all(|(k, v)| {
                    let e = a + k as f64 * s;
                    if dyadic { *v == e } else { (*v - e).abs() <= 1e-12 * (1.0 + e.abs()) }
                });
                let strictly_before = dyadic && g.iter().any(|v| if s > 0.0 { *v >= b } else { *v <= b });
                if n_ok && vals_ok && !strictly_before {
                    ctx.count("range_float_ok");
                    ctx.distinct(&format!("rf|{ty}|{}|{}|{dyadic}", want_k.len().min(12), sk.signum()));
                } else {
                    ctx.violation(&format!("range/content_float/{}", if dyadic { "dyadic" } else { "nondyadic" }), || {
                        format!("{} = {g:?}, expected {} elements a + k*step", d(), want_k.len())
                    });
                }
            },
        }
    }
}

fn linspace_case(ctx: &mut Ctx, a: i64, b: i64, n: usize) {
    let d = || format!("linspace({a}, {b}, {n})");
    ctx.evaluations += 2;
    match catch(|| <Vec<f64> as Vec1Create<f64>>::linspace(Some(a as f64 / 4.0), b as f64 / 4.0, n)) {
        Err(p) => vp(ctx, "linspace", &p, d()),
        Ok(g) => {
            ctx.events += g.len() as u64 + 1;
            let (fa, fb) = (a as f64 / 4.0, b as f64 / 4.0);
            let step = if n > 1 { (fb - fa) / (n - 1) as f64 } else { 0.0 };
            let ok = g.len() == n
                && (n == 0 || g[0] == fa)
                && g.iter().enumerate().all(|(k, v)| (*v - (fa + step * k as f64)).abs() <= 1e-12 * (1.0 + fa.abs() + fb.abs()))
                && (n < 2 || (g[n - 1] - fb).abs() <= 1e-12 * (1.0 + fb.abs()));
            if ok {
                ctx.count("linspace_ok");
                ctx.distinct(&format!("lf|{n}|{}", (b - a).signum()));
            } else {
                ctx.violation("linspace/content_float", || format!("{} [f64 /4] = {g:?}", d()));
            }
        },
    }
    match catch(|| <VecDeque<i32> as Vec1Create<i32>>::linspace(Some(a as i32), b as i32, n)) {
        Err(p) => vp(ctx, "linspace", &p, format!("{} [i32]", d())),
        Ok(g) => {
            let g: Vec<i32> = g.into_iter().collect();
            ctx.events += g.len() as u64 + 1;
            let step = if n > 1 { (b - a) as i32 / (n as i32 - 1) } else { 0 };
            let ok = g.len() == n && g.iter().enumerate().all(|(k, v)| *v == a as i32 + step * k as i32);
            if ok {
                ctx.count("linspace_ok");
                ctx.distinct(&format!("li|{n}|{}", (b - a).signum()));
            } else {
                ctx.violation("linspace/content_int", || format!("{} [i32] = {g:?} (constant step {step} expected)", d()));
            }
        },
    }
}

fn full_empty_case(ctx: &mut Ctx, len: usize) {
    ctx.evaluations += 4;
    let chk = |ctx: &mut Ctx, what: &str, ok: Result<bool, String>| match ok {
        Ok(true) => ctx.count("full_empty_ok"),
        Ok(false) => ctx.violation(&format!("{what}/content"), || format!("{what} with len {len}")),
        Err(p) => vp(ctx, what, &p, format!("len {len}")),
    };
    chk(ctx, "full<Vec<f64>>", catch(|| {
        let v: Vec<f64> = Vec1::full(len, 2.5);
        v.len() == len && v.iter().all(|x| *x == 2.5)
    }));
    chk(ctx, "full<VecDeque<String>>", catch(|| {
        let v: VecDeque<String> = Vec1::full(len, "ab".to_string());
        v.len() == len && v.iter().all(|x| x == "ab")
    }));
    chk(ctx, "full<Array1<i32>>", catch(|| {
        let v: Array1<i32> = Vec1::full(len, -3);
        v.len() == len && v.iter().all(|x| *x == -3)
    }));
    chk(ctx, "empty", catch(|| {
        let a: Vec<f64> = Vec1::empty();
        let b: VecDeque<i32> = Vec1::empty();
        let c: Array1<f64> = Vec1::empty();
        a.is_empty() && b.is_empty() && c.is_empty()
    }));
    ctx.distinct(&format!("full|{len}"));
}

// ---- collectors ----------------------------------------------------------------------------

fn collectors_case(ctx: &mut Ctx, rng: &mut Rng, len: usize) {
    let src: Vec<i64> = (0..len).map(|i| 10 * i as i64 + rng.range_i64(0, 9)).collect();
    let d = format!("source {src:?}");
    macro_rules! into_all {
        ($name:expr, |$O:ident| $body:expr) => {{
            ctx.evaluations += 3;
            ctx.events += 3 * (len as u64 + 1);
            {
                type $O = Vec<i64>;
                match catch(|| -> Vec<i64> { $body }) {
                    Ok(g) if g == src => ctx.count("collect_ok"),
                    Ok(g) => ctx.violation(&format!("{}/content/vec", $name), || format!("{g:?}; {d}")),
                    Err(p) => vp(ctx, $name, &p, d.clone()),
                }
            }
            {
                type $O = VecDeque<i64>;
                match catch(|| -> Vec<i64> { let o: VecDeque<i64> = $body; o.into_iter().collect() }) {
                    Ok(g) if g == src => ctx.count("collect_ok"),
                    Ok(g) => ctx.violation(&format!("{}/content/deque", $name), || format!("{g:?}; {d}")),
                    Err(p) => vp(ctx, $name, &p, d.clone()),
                }
            }
            {
                type $O = Array1<i64>;
                match catch(|| -> Vec<i64> { let o: Array1<i64> = $body; o.to_vec() }) {
                    Ok(g) if g == src => ctx.count("collect_ok"),
                    Ok(g) => ctx.violation(&format!("{}/content/array1", $name), || format!("{g:?}; {d}")),
                    Err(p) => vp(ctx, $name, &p, d.clone()),
                }
            }
        }};
    }
    into_all!("collect_vec1", |O| src.iter().copied().filter(|_| true).collect_vec1::<O>());
    into_all!("collect_trusted_vec1", |O| src.titer().collect_trusted_vec1::<O>());
    into_all!("collect_vec1_with_len", |O| src.iter().copied().filter(|_| true).collect_vec1_with_len::<O>(len));
    into_all!("try_collect_vec1", |O| src.iter().map(|v| -> TResult<i64> { Ok(*v) }).try_collect_vec1::<O>().unwrap());
    into_all!("try_collect_trusted_vec1", |O| src.titer().map(|v| -> TResult<i64> { Ok(v) }).try_collect_trusted_vec1::<O>().unwrap());
    ctx.distinct(&format!("collect|{len}"));
    // optional -> null encoded
    let opt: Vec<Option<f64>> = (0..len).map(|i| if rng.chance(0.3) { None } else { Some(i as f64 / 2.0) }).collect();
    ctx.evaluations += 2;
    match catch(|| opt.iter().cloned().collect_vec1_opt::<Vec<f64>>()) {
        Ok(g) => {
            let ok = g.len() == len && g.iter().zip(&opt).all(|(a, b)| match b {
                None => a.is_nan(),
                Some(v) => a == v,
            });
            if ok { ctx.count("collect_opt_ok") } else { ctx.violation("collect_vec1_opt/content", || format!("{g:?} from {opt:?}")) }
        },
        Err(p) => vp(ctx, "collect_vec1_opt", &p, format!("{opt:?}")),
    }
    match catch(|| opt.iter().cloned().collect_vec1_opt::<VecDeque<f64>>()) {
        Ok(g) if g.len() == len => ctx.count("collect_opt_ok"),
        Ok(g) => ctx.violation("collect_vec1_opt/length", || format!("{g:?} from {opt:?}")),
        Err(p) => vp(ctx, "collect_vec1_opt", &p, format!("{opt:?}")),
    }
    // fallible collection: the first error is returned
    for p1 in 0..len {
        let p2 = rng.range_usize(p1, len - 1);
        let items = |trusted: bool| {
            let v: Vec<TResult<i64>> = (0..len)
                .map(|i| if i == p1 { Err(terr!("error at {}", p1)) } else if i == p2 { Err(terr!("error at {}", p2)) } else { Ok(src[i]) })
                .collect();
            let _ = trusted;
            v
        };
        let want = format!("error at {p1}");
        let mut chk = |ctx: &mut Ctx, name: &str, r: Result<Result<usize, TError>, String>| {
            ctx.evaluations += 1;
            ctx.events += 1;
            match r {
                Ok(Err(e)) if e.to_string().contains(&want) => {
                    ctx.count("first_error_ok");
                    ctx.distinct(&format!("err|{name}|{len}|{p1}"));
                },
                Ok(Err(e)) => ctx.violation(&format!("{name}/not_first_error"), || format!("returned '{e}', expected the first error '{want}' (errors at {p1} and {p2}, len {len})")),
                Ok(Ok(n)) => ctx.violation(&format!("{name}/error_swallowed"), || format!("Ok with {n} items although position {p1} is an error")),
                Err(p) => vp(ctx, name, &p, format!("errors at {p1},{p2} len {len}")),
            }
        };
        chk(ctx, "try_collect_vec1<Vec>", catch(|| items(false).try_collect_vec1::<Vec<i64>>().map(|v| v.len())));
        chk(ctx, "try_collect_vec1<VecDeque>", catch(|| items(false).try_collect_vec1::<VecDeque<i64>>().map(|v| v.len())));
        chk(ctx, "try_collect_vec1<Array1>", catch(|| items(false).try_collect_vec1::<Array1<i64>>().map(|v| v.len())));
        chk(ctx, "try_collect_trusted_vec1<Vec>", catch(|| items(true).try_collect_trusted_vec1::<Vec<i64>>().map(|v| v.len())));
        chk(ctx, "try_collect_trusted_vec1<VecDeque>", catch(|| items(true).try_collect_trusted_vec1::<VecDeque<i64>>().map(|v| v.len())));
        chk(ctx, "try_collect_trusted_vec1<Array1>", catch(|| items(true).try_collect_trusted_vec1::<Array1<i64>>().map(|v| v.len())));
        // heap-owning items: the already written prefix must not be dropped twice / read uninitialised
        let sitems: Vec<TResult<String>> = (0..len).map(|i| if i == p1 { Err(terr!("error at {}", p1)) } else { Ok(format!("item-{i}-on-the-heap")) }).collect();
        chk(ctx, "try_collect_trusted_vec1<Vec<String>>", catch(|| sitems.try_collect_trusted_vec1::<Vec<String>>().map(|v| v.len())));
    }
}

// ---- write into uninitialised buffers -----------------------------------------------------------

fn write_case(ctx: &mut Ctx, blen: usize, ilen: usize) {
    let items: Vec<f64> = (0..ilen).map(|i| 100.0 + i as f64).collect();
    let d = format!("buffer of {blen}, iterator of {ilen}");
    let should_ok = blen == 0 || ilen == blen || ilen == 1;
    let want: Vec<f64> = if blen == 0 { vec![] } else if ilen == blen { items.clone() } else { vec![100.0; blen] };
    // instrumented buffer: exactly-once
    ctx.evaluations += 1;
    ctx.events += blen as u64 + 1;
    let r = catch(|| {
        let mut u: SpyUninit<f64> = <SpyOut<f64> as Vec1<f64>>::uninit(blen);
        let res = {
            let mut rm = <SpyOut<f64> as Vec1<f64>>::uninit_ref_mut(&mut u);
            items.titer().write(&mut rm)
        };
        match res {
            Ok(()) => Ok(u.finish().map(|o| o.data)),
            Err(e) => {
                // an error must not leave a partially written buffer behind
                let written: u32 = u.writes.iter().sum();
                Err((e.to_string(), written))
            },
        }
    });
    match r {
        Err(p) => vp(ctx, "write", &p, d.clone()),
        Ok(Ok(Ok(data))) => {
            if !should_ok {
                ctx.violation("write/missing_err", || format!("Ok although lengths mismatch; {d}"));
            } else if data != want {
                ctx.violation("write/content", || format!("{data:?}, expected {want:?}; {d}"));
            } else {
                ctx.count("write_ok");
                ctx.distinct(&format!("w|{blen}|{ilen}"));
            }
        },
        Ok(Ok(Err(e))) => ctx.violation("write/slots_not_written_once", || format!("{e}; {d}")),
        Ok(Err((e, written))) => {
            if should_ok {
                ctx.violation("write/unexpected_err", || format!("Err({e}); {d}"));
            } else if written != 0 {
                ctx.violation("write/partial_state_on_err", || format!("Err({e}) after {written} slots were written; {d}"));
            } else {
                ctx.count("write_len_mismatch_err_ok");
                ctx.distinct(&format!("we|{blen}|{ilen}"));
            }
        },
    }
    // real buffers (Vec / VecDeque / Array1), String elements: sanitizer targets
    macro_rules! real {
        ($O:ty, $label:expr) => {{
            ctx.evaluations += 1;
            let sitems: Vec<String> = (0..ilen).map(|i| format!("s{i}-heap-allocated-string")).collect();
            let r = catch(|| {
                let mut u = <$O as Vec1<String>>::uninit(blen);
                let res = {
                    let mut rm = <$O as Vec1<String>>::uninit_ref_mut(&mut u);
                    sitems.titer().write(&mut rm)
                };
                match res {
                    Ok(()) => {
                        let o: $O = unsafe { u.assume_init() };
                        Some(o.titer().collect::<Vec<String>>())
                    },
                    Err(_) => None, // the untouched MaybeUninit buffer is simply released
                }
            });
            match r {
                Err(p) => vp(ctx, "write", &p, format!("{d} [{}]", $label)),
                Ok(Some(v)) => {
                    let wants: Vec<String> = if blen == 0 { vec![] } else if ilen == blen { sitems.clone() } else { vec![sitems[0].clone(); blen] };
                    if !should_ok || v != wants {
                        ctx.violation(&format!("write/content/{}", $label), || format!("{v:?}; {d}"));
                    } else {
                        ctx.count("write_real_ok");
                    }
                },
                Ok(None) => {
                    if should_ok {
                        ctx.violation(&format!("write/unexpected_err/{}", $label), || d.clone());
                    } else {
                        ctx.count("write_len_mismatch_err_ok");
                    }
                },
            }
        }};
    }
    real!(Vec<String>, "vec<String>");
    real!(VecDeque<String>, "deque<String>");
    real!(Array1<String>, "array1<String>");
    // uset directly through the checked `set`
    ctx.evaluations += 1;
    let r = catch(|| {
        let mut u = <Vec<f64> as Vec1<f64>>::uninit(blen);
        let mut ok = true;
        for i in 0..blen {
            ok &= u.set(i, i as f64).is_ok();
        }
        ok &= u.set(blen, 0.0).is_err();
        let v: Vec<f64> = unsafe { u.assume_init() };
        ok && v.iter().enumerate().all(|(i, x)| *x == i as f64)
    });
    match r {
        Ok(true) => ctx.count("checked_set_ok"),
        Ok(false) => ctx.violation("uninit_set/content", || format!("checked set on a buffer of {blen}")),
        Err(p) => vp(ctx, "uninit_set", &p, format!("buffer of {blen}")),
    }
    let _ = |mut r: &mut [std::mem::MaybeUninit<f64>]| unsafe { UninitRefMut::uset(&mut r, 0, 0.0) };
}

fn main() {
    let mut ctx = Ctx::from_args("C19");
    let san = ctx.is_sanitizer_mode();
    // ranges: small integers, negative steps, non-divisible and empty spans
    let r = if san { 3 } else { 9 };
    for a in -r..=r {
        for b in -r..=r {
            for step in [-4i64, -3, -2, -1, 1, 2, 3, 4, 7] {
                if ctx.sweep_case().is_some() {
                    range_int_case(&mut ctx, a, b, step);
                    range_float_case(&mut ctx, a, b, step, 8.0, true);
                    range_float_case(&mut ctx, a, b, step, 10.0, false);
                }
            }
        }
    }
    let nmax = if san { ctx.budget(4, 6) } else { ctx.budget(12, 24) };
    for n in 0..=nmax {
        for (a, b) in [(0i64, 0i64), (1, 4), (4, 1), (-7, 9), (3, 3), (0, 100), (-5, -50)] {
            if ctx.sweep_case().is_some() {
                linspace_case(&mut ctx, a, b, n);
            }
        }
        if ctx.sweep_case().is_some() {
            full_empty_case(&mut ctx, n);
        }
        if let Some(mut rng) = ctx.sweep_case() {
            collectors_case(&mut ctx, &mut rng, n);
        }
        for ilen in 0..=nmax.min(8) + 1 {
            if ctx.sweep_case().is_some() {
                write_case(&mut ctx, n, ilen);
            }
        }
    }
    let nr = if san { 0 } else { ctx.cbudget(10000, 200000) };
    for _ in 0..nr {
        if let Some(mut rng) = ctx.random_case() {
            let a = rng.range_i64(-1000, 1000);
            let b = rng.range_i64(-1000, 1000);
            let mut step = rng.range_i64(-50, 50);
            if step == 0 {
                step = 13;
            }
            range_int_case(&mut ctx, a, b, step);
            range_float_case(&mut ctx, a, b, step, 64.0, true);
            range_float_case(&mut ctx, a, b, step, 1000.0, false);
            if rng.chance(0.05) {
                // extremes of the integer types: no overflow panic for spans that fit
                range_int_case(&mut ctx, i32::MAX as i64 - rng.range_i64(0, 20), i32::MAX as i64, rng.range_i64(1, 5));
                range_int_case(&mut ctx, i32::MIN as i64 + rng.range_i64(0, 20), i32::MIN as i64, -rng.range_i64(1, 5));
            }
        }
    }
    std::process::exit(ctx.finish());
}
