//! C20 — composite analytics terminate within range and respect their defining relations.
use tevec::prelude::{AggValidFinal, CorrMethod, MapValidFinal, WinsorizeMethod};
use tvmon::ctx::{Ctx, catch, is_marked_panic, panic_key};
use tvmon::model::*;
use tvmon::rng::Rng;
use tvmon::spy::SpyVec;
use tvmon::wl::*;

// ---- winsorize ------------------------------------------------------------------------------

fn quantile_linear(s: &[f64], q: f64) -> f64 {
    let n = s.len();
    if n == 1 {
        return s[0];
    }
    let idx = (n - 1) as f64 * q;
    let (i, j) = (idx.floor() as usize, idx.ceil() as usize);
    s[i] + (s[j] - s[i]) * (idx - i as f64)
}

fn winsorize_case(ctx: &mut Ctx, rng: &mut Rng, x: &Series) {
    let xf = enc_f64(x);
    let vals: Vec<f64> = x.iter().flatten().copied().collect();
    let n = vals.len();
    let s = sorted(&vals);
    let xs = fmt_series(x);
    let scale = maxabs(&vals).max(1.0);
    let cases: [(WinsorizeMethod, &str, f64); 3] = [
        (WinsorizeMethod::Quantile, "quantile", *rng.pick(&[0.0, 0.01, 0.1, 0.25, 0.33, 0.5])),
        (WinsorizeMethod::Median, "median", *rng.pick(&[0.0, 0.5, 1.0, 2.0, 3.0])),
        (WinsorizeMethod::Sigma, "sigma", *rng.pick(&[0.0, 0.5, 1.0, 2.0, 3.0])),
    ];
    for (m, mname, p) in cases {
        ctx.evaluations += 1;
        let d = || format!("winsorize({mname}, {p}) x={xs}");
        let r = catch(|| xf.winsorize(m, Some(p)).map(|it| it.collect::<Vec<f64>>()).map_err(|e| e.to_string()));
        let out = match r {
            Err(e) => {
                let k = if is_marked_panic(&e) { "memory" } else { "panic" };
                ctx.violation(&format!("winsorize/{k}/{mname}/{}", panic_key(&e)), || format!("{e}; {}", d()));
                continue;
            },
            Ok(Err(e)) => {
                ctx.violation(&format!("winsorize/err/{mname}"), || format!("Err({e}); {}", d()));
                continue;
            },
            Ok(Ok(v)) => v,
        };
        ctx.events += out.len() as u64;
        if out.len() != x.len() {
            ctx.violation(&format!("winsorize/length/{mname}"), || format!("{} values for {} inputs; {}", out.len(), x.len(), d()));
            continue;
        }
        // bounds recomputed from scratch; `None` = no clipping at all is (also) acceptable
        let mut tau = 64.0 * F64_EPS * scale * (n as f64).max(4.0);
        let (bounds, no_clip_ok): (Option<(f64, f64)>, bool) = match mname {
            "quantile" => {
                if n == 0 {
                    (None, true)
                } else {
                    (Some((quantile_linear(&s, p), quantile_linear(&s, 1.0 - p))), false)
                }
            },
            "median" => {
                if n == 0 {
                    (None, true)
                } else {
                    let med = quantile_linear(&s, 0.5);
                    let dev = sorted(&vals.iter().map(|v| (v - med).abs()).collect::<Vec<_>>());
                    let mad = quantile_linear(&dev, 0.5);
                    (Some((med - p * mad, med + p * mad)), false)
                }
            },
            _ => {
                if n < 2 {
                    (None, true)
                } else {
                    let e = ErrCtx::aggregate(n);
                    let (fl, vp, hw) = var_floor(&vals, &e);
                    let mean = mean(&vals);
                    let sd = var_sample(&vals).unwrap().sqrt();
                    // the bounds come from a one-pass variance: propagate its a-priori error (DESIGN 5.1)
                    // through sd = sqrt(var n/(n-1)) to the bound mean +- p sd
                    let nf = n as f64;
                    if hw.is_finite() && sd > 0.0 {
                        tau += 2.0 * p * (hw * nf / (nf - 1.0)) / (2.0 * sd) + 64.0 * F64_EPS * scale * nf;
                    }
                    // the library does not clip at all when the population variance is <= EPS (DESIGN 5.6)
                    match fl {
                        Floor::Below => (None, true),
                        Floor::Zone => (Some((mean - p * sd, mean + p * sd)), true),
                        Floor::Above => {
                            let _ = vp;
                            (Some((mean - p * sd, mean + p * sd)), false)
                        },
                    }
                }
            },
        };
        let mut bad: Option<String> = None;
        let mut clipped_all = true;
        let mut untouched_all = true;
        for (i, (o, v)) in out.iter().zip(x.iter()).enumerate() {
            match v {
                None => {
                    if !o.is_nan() {
                        bad = Some(format!("null_not_kept: element {i} is null but the result is {o}"));
                        break;
                    }
                },
                Some(v) => {
                    if o.is_nan() {
                        bad = Some(format!("value_became_null: element {i} = {v} became null"));
                        break;
                    }
                    if *o != *v {
                        untouched_all = false;
                    }
                    if let Some((lo, hi)) = bounds {
                        let ok = if *v > lo + tau && *v < hi - tau {
                            *o == *v
                        } else if *v < lo - tau {
                            (*o - lo).abs() <= tau
                        } else if *v > hi + tau {
                            (*o - hi).abs() <= tau
                        } else {
                            // within tau of a bound: either kept or moved onto the bound
                            *o == *v || (*o - lo).abs() <= tau || (*o - hi).abs() <= tau
                        };
                        if !ok {
                            clipped_all = false;
                            if !no_clip_ok {
                                bad = Some(format!("wrong_clipping: element {i} = {v} became {o}, bounds [{lo}, {hi}] (tolerance {tau:e})"));
                                break;
                            }
                        }
                    }
                },
            }
        }
        if bad.is_none() && no_clip_ok && !(untouched_all || (bounds.is_some() && clipped_all)) {
            bad = Some("wrong_clipping: neither untouched nor clipped to the recomputed bounds".to_string());
        }
        // order preserving
        if bad.is_none() {
            let idx: Vec<usize> = (0..x.len()).filter(|i| x[*i].is_some()).collect();
            'outer: for &a in &idx {
                for &b in &idx {
                    if x[a].unwrap() <= x[b].unwrap() && out[a] > out[b] {
                        bad = Some(format!("order_not_preserved: x[{a}]={} <= x[{b}]={} but results {} > {}", x[a].unwrap(), x[b].unwrap(), out[a], out[b]));
                        break 'outer;
                    }
                }
                if idx.len() > 60 {
                    break;
                }
            }
        }
        match bad {
            Some(b) => {
                let key = b.split(':').next().unwrap().to_string();
                ctx.violation(&format!("winsorize/{key}/{mname}"), || format!("{b}; {} -> {}", d(), fmt_f64s(&out)));
            },
            None => {
                ctx.count(&format!("winsorize_ok.{mname}"));
                if !untouched_all {
                    ctx.sample(|| format!("{} -> {} (bounds recomputed from scratch: {bounds:?})", d(), fmt_f64s(&out)));
                    ctx.count(&format!("winsorize_clipped.{mname}"));
                    ctx.distinct(&format!("w|{mname}|{p}|{}|{n}", x.len().min(30)));
                }
            },
        }
    }
}

// ---- spearman ------------------------------------------------------------------------------------

fn ranks(x: &Series) -> Series {
    let vals: Vec<f64> = x.iter().flatten().copied().collect();
    x.iter().map(|v| v.map(|c| avg_rank(c, &vals))).collect()
}

fn spearman_case(ctx: &mut Ctx, rng: &mut Rng, x: &Series, y: &Series) {
    let (xf, yf) = (enc_f64(x), enc_f64(y));
    let mp = if rng.chance(0.3) { None } else { Some(rng.range_usize(0, 4)) };
    let mpe = mp.unwrap_or(x.len() / 2);
    let d = || format!("vcorr(Spearman, min_periods={mp:?}) x={} y={}", fmt_series(x), fmt_series(y));
    ctx.evaluations += 1;
    ctx.events += 1;
    let got = match catch(|| xf.vcorr(&yf, mp, CorrMethod::Spearman)) {
        Ok(v) => v,
        Err(p) => {
            ctx.violation(&format!("spearman/panic/{}", panic_key(&p)), || format!("{p}; {}", d()));
            return;
        },
    };
    // Pearson correlation of the average ranks (own oracle for both steps)
    let (rx, ry) = (ranks(x), ranks(y));
    let (mut pa, mut pb) = (Vec::new(), Vec::new());
    for (a, b) in rx.iter().zip(ry.iter()) {
        if let (Some(a), Some(b)) = (a, b) {
            pa.push(*a);
            pb.push(*b);
        }
    }
    let np = pa.len();
    let e = if np < mpe.max(2) { Expect::Null } else { pair_expect(Pair::Corr, &pa, &pb, &ErrCtx::aggregate(np), (0.0, 0.0)) };
    let o = if got.is_nan() { Obs::null() } else { Obs::val(got) };
    match e.check(o, 0.0) {
        Verdict::Ok => {
            ctx.count("spearman_ok");
            if !o.null {
                ctx.distinct(&format!("sp|{}|{np}|{mp:?}", x.len().min(40)));
            }
        },
        Verdict::OkUnconstrained => ctx.count("spearman_unconstrained"),
        Verdict::NullMismatch => ctx.violation("spearman/null_mismatch", || format!("observed {got}, expected {}; {}", e.describe(), d())),
        Verdict::ValueMismatch => ctx.violation("spearman/value", || format!("observed {got}, expected {}; {}", e.describe(), d())),
    }
    // Pearson method through the same entry point
    ctx.evaluations += 1;
    match catch(|| xf.vcorr(&yf, mp, CorrMethod::Pearson)) {
        Ok(v) => {
            let (mut qa, mut qb) = (Vec::new(), Vec::new());
            for (a, b) in x.iter().zip(y.iter()) {
                if let (Some(a), Some(b)) = (a, b) {
                    qa.push(*a);
                    qb.push(*b);
                }
            }
            let e = if qa.len() < mpe.max(2) { Expect::Null } else { pair_expect(Pair::Corr, &qa, &qb, &ErrCtx::aggregate(qa.len()), (0.0, 0.0)) };
            let o = if v.is_nan() { Obs::null() } else { Obs::val(v) };
            match e.check(o, 0.0) {
                Verdict::Ok | Verdict::OkUnconstrained => ctx.count("pearson_ok"),
                _ => ctx.violation("vcorr_pearson_method/value", || format!("observed {v}, expected {}; x={} y={}", e.describe(), fmt_series(x), fmt_series(y))),
            }
        },
        Err(p) => ctx.violation(&format!("vcorr_pearson_method/panic/{}", panic_key(&p)), || p.clone()),
    }
    // invariance under strictly increasing maps of either series (ranks are identical → exact)
    // (both series must be small: exp(y/4) of a LargeOffset series overflows to inf and is no longer strictly increasing)
    if int_valued(&[x, y]) && maxabs(&x.iter().chain(y.iter()).flatten().copied().collect::<Vec<_>>()) <= 20.0 {
        let maps: [(&str, fn(f64) -> f64); 3] = [("2x+1", |v| 2.0 * v + 1.0), ("x^3", |v| v * v * v), ("exp(x/4)", |v| (v / 4.0).exp())];
        for (mn, f) in maps {
            ctx.evaluations += 1;
            let tx: Vec<f64> = xf.iter().map(|v| f(*v)).collect();
            let ty: Vec<f64> = yf.iter().map(|v| f(*v)).collect();
            match (catch(|| tx.vcorr(&yf, mp, CorrMethod::Spearman)), catch(|| xf.vcorr(&ty, mp, CorrMethod::Spearman))) {
                (Ok(a), Ok(b)) => {
                    let same = |p: f64, q: f64| p.to_bits() == q.to_bits() || (p.is_nan() && q.is_nan());
                    if same(a, got) && same(b, got) {
                        ctx.count("spearman_invariance_ok");
                    } else {
                        ctx.violation("spearman/not_invariant", || format!("Spearman {got} becomes {a} / {b} after applying {mn} to x / y; {}", d()));
                    }
                },
                (Err(p), _) | (_, Err(p)) => ctx.violation(&format!("spearman/panic/{}", panic_key(&p)), || p.clone()),
            }
        }
    }
}

// ---- half-life -----------------------------------------------------------------------------------------

/// lag autocorrelation exactly as defined: Pearson correlation of (x[i], x[i-lag]) over complete pairs
fn autocorr(x: &Series, lag: usize, mp: usize) -> Option<f64> {
    let (mut a, mut b) = (Vec::new(), Vec::new());
    for i in lag..x.len() {
        if let (Some(p), Some(q)) = (x[i], x[i - lag]) {
            a.push(p);
            b.push(q);
        }
    }
    if a.len() < mp.max(2) {
        return None;
    }
    let ps = pair_stats(&a, &b);
    let n = a.len() as f64;
    if ps.sxx / n <= 1e-12 || ps.syy / n <= 1e-12 {
        return None;
    }
    Some(ps.sxy / (ps.sxx * ps.syy).sqrt())
}

fn half_life_case(ctx: &mut Ctx, rng: &mut Rng, x: &Series, label: &str) {
    let len = x.len();
    // small min_periods keep the autocorrelation defined at large lags (so that the exact value
    // can be asserted); larger ones exercise the "undefined -> stop" branches
    let mp = match rng.below(10) {
        0..=1 => None,
        2..=6 => Some(rng.range_usize(1, 2)),
        _ => Some(rng.range_usize(1, len.max(1))),
    };
    let mpe = mp.unwrap_or(len / 2);
    let sv = SpyVec::new(enc_f64(x));
    // "always terminates", restated as bounded progress in logical steps: no more than a constant
    // number of passes over the data per candidate lag (there are len - 1 of them). The first
    // version of this budget, 4 (log2 len + 2) + 8, was the bisection's own step count and fired on
    // a correct implementation that probes the first 32 lags one by one (property-preserving
    // change Q20).
    let budget = 4 * len as u64 + 64;
    sv.pass_budget.set(budget);
    ctx.evaluations += 1;
    ctx.events += 1;
    let d = || format!("half_life(min_periods={mp:?}) [{label}] x={}", fmt_series(x));
    let r = catch(|| sv.half_life(mp));
    let passes = sv.take_log().titers;
    ctx.maximum("half_life_passes_over_budget", passes as f64 / budget as f64, || format!("len={len} passes={passes} budget={budget}"));
    match r {
        Err(p) => {
            if p.contains("SPY-BUDGET") {
                ctx.violation("half_life/no_bounded_progress", || format!("more than {budget} passes over the data for {len} elements (the search does not converge); {}", d()));
            } else if is_marked_panic(&p) {
                ctx.violation(&format!("half_life/memory/{}", panic_key(&p)), || format!("{p}; {}", d()));
            } else {
                ctx.violation(&format!("half_life/panic/{}", panic_key(&p)), || format!("{p}; {}", d()));
            }
        },
        Ok(h) => {
            let in_range = if len < 2 { h == 0 } else { h >= 1 && h < len };
            if !in_range {
                ctx.violation("half_life/out_of_range", || format!("result {h} for a series of length {len}; {}", d()));
                return;
            }
            ctx.count("half_life_in_range");
            // exact value only for series with a clean threshold structure (DESIGN 5.6)
            if len >= 3 {
                let delta = 1e-6;
                let ac: Vec<Option<f64>> = (1..=len - 2).map(|l| autocorr(x, l, mpe)).collect();
                if ac.iter().all(|c| c.is_some()) {
                    let l_first = ac.iter().position(|c| c.unwrap() < 0.5 - delta).map(|p| p + 1);
                    let clean = match l_first {
                        Some(l) => ac[..l - 1].iter().all(|c| c.unwrap() > 0.5 + delta) && ac[l - 1..].iter().all(|c| c.unwrap() < 0.5 - delta),
                        None => ac.iter().all(|c| c.unwrap() > 0.5 + delta),
                    };
                    if clean {
                        let want = l_first.unwrap_or(len - 1).min(len - 1);
                        if h != want {
                            ctx.violation("half_life/value", || format!("result {h}, expected {want} (autocorrelation above 0.5 exactly up to lag {}); {}", want - 1, d()));
                        } else {
                            ctx.count("half_life_value_ok");
                            ctx.sample(|| format!("{} = {h} = first lag with autocorrelation below 0.5 ({} passes over the data, budget {budget})", d(), passes));
                            ctx.distinct(&format!("hl|{label}|{}|{want}", len.min(64)));
                        }
                    } else {
                        ctx.count("half_life_no_clean_threshold");
                    }
                } else {
                    ctx.count("half_life_undefined_autocorr");
                }
            }
        },
    }
}

fn ar1(rng: &mut Rng, len: usize, phi: f64) -> Series {
    let mut v = Vec::with_capacity(len);
    let mut cur = 0.0;
    for _ in 0..len {
        cur = phi * cur + rng.normal();
        v.push(Some(cur));
    }
    v
}

fn main() {
    let mut ctx = Ctx::from_args("C20");
    let nmax = ctx.budget(14, 24);
    for len in 0..=nmax {
        for pat in NULL_PATTERNS {
            for _rep in 0..3 {
                if let Some(mut rng) = ctx.sweep_case() {
                    let c = *rng.pick(&ALL_CLASSES);
                    let x = series(&mut rng, c, pat, len);
                    let (y, _, _) = random_series(&mut rng, &ALL_CLASSES, len);
                    winsorize_case(&mut ctx, &mut rng, &x);
                    spearman_case(&mut ctx, &mut rng, &x, &y);
                    half_life_case(&mut ctx, &mut rng, &x, "small");
                }
            }
        }
    }
    let nr = ctx.cbudget(2000, 40000);
    for k in 0..nr {
        if let Some(mut rng) = ctx.random_case() {
            let len = rng.range_usize(2, 120);
            let (x, _, _) = random_series(&mut rng, &ALL_CLASSES, len);
            let (y, _, _) = random_series(&mut rng, &ALL_CLASSES, len);
            winsorize_case(&mut ctx, &mut rng, &x);
            spearman_case(&mut ctx, &mut rng, &x, &y);
            // AR(1) paths with every persistence, monotone / trending, alternating
            let hl_len = rng.range_usize(2, 260);
            let s: Series = match k % 5 {
                0 => {
                    let phi = *rng.pick(&[-0.9, -0.5, 0.0, 0.3, 0.6, 0.8, 0.9, 0.95, 0.99]);
                    ar1(&mut rng, hl_len, phi)
                },
                1 => (0..hl_len).map(|i| Some(i as f64 * 0.5 + rng.normal() * 0.01)).collect(),
                2 => (0..hl_len).map(|i| Some(if i % 2 == 0 { 1.0 } else { -1.0 })).collect(),
                3 => {
                    let mut s = ar1(&mut rng, hl_len, 0.9);
                    for v in s.iter_mut() {
                        if rng.chance(0.1) {
                            *v = None;
                        }
                    }
                    s
                },
                _ => {
                    let phi = 0.5f64.powf(1.0 / rng.range_usize(1, 12) as f64);
                    ar1(&mut rng, hl_len.max(120), phi)
                },
            };
            ctx.count(&format!("half_life_workload.{}", k % 5));
            half_life_case(&mut ctx, &mut rng, &s, "paths");
        }
    }
    std::process::exit(ctx.finish());
}
