//! Run context shared by all property binaries: argument parsing, case numbering and
//! ownership (sharding), per-case PRNG streams, journal, observation counters, violation
//! records and the JSON result file read by `/verif/check`.

use std::cell::RefCell;
use std::collections::{BTreeMap, HashSet};
use std::fmt::Write as _;
use std::io::Write as _;
use std::panic::{self, AssertUnwindSafe};

use crate::rng::{Rng, hash_str};

#[derive(Clone, Copy, Debug, PartialEq, Eq)]
pub enum Tier {
    Quick,
    Thorough,
}

#[derive(Clone, Debug)]
pub struct Violation {
    pub sig: String,
    pub detail: String,
    pub case_id: u64,
    pub count: u64,
}

pub struct Ctx {
    pub property: String,
    pub tier: Tier,
    pub seed: u64,
    pub shard: usize,
    pub nshards: usize,
    /// observation mode the binary was built for: dbg | rel | miri | asan | vg
    pub mode: String,
    /// scale factor for workload sizes (sanitizer modes pass something < 1)
    pub scale: f64,
    /// multiplier for the number of random cases / repetitions (not for size bounds): `--depth`
    pub depth: f64,
    pub out: Option<String>,
    pub journal: Option<std::fs::File>,
    pub replay: Option<u64>,
    pub verbose: bool,

    next_id: u64,
    cur_id: u64,
    tick: u64,
    pub evaluations: u64,
    pub events: u64,
    distinct: HashSet<u64>,
    distinct_overflow: u64,
    pub counters: BTreeMap<String, u64>,
    pub maxima: BTreeMap<String, (f64, String)>,
    samples: Vec<String>,
    violations: BTreeMap<String, Violation>,
    started: std::time::Instant,
}

const DISTINCT_CAP: usize = 3_000_000;

thread_local! {
    static LAST_PANIC: RefCell<Option<String>> = const { RefCell::new(None) };
}

/// Install a quiet panic hook that remembers the last panic message (with location).
pub fn install_quiet_panic_hook() {
    panic::set_hook(Box::new(|info| {
        let msg = if let Some(s) = info.payload().downcast_ref::<&str>() {
            (*s).to_string()
        } else if let Some(s) = info.payload().downcast_ref::<String>() {
            s.clone()
        } else {
            "<non-string panic>".to_string()
        };
        let loc = info
            .location()
            .map(|l| format!("{}:{}", l.file(), l.line()))
            .unwrap_or_default();
        if std::env::var_os("TVMON_LOUD").is_some() {
            eprintln!("panic: {msg} @ {loc}");
        }
        LAST_PANIC.with(|p| *p.borrow_mut() = Some(format!("{msg} @ {loc}")));
    }));
}

/// Run `f`, converting an unwinding panic into `Err(message @ location)`.
pub fn catch<T>(f: impl FnOnce() -> T) -> Result<T, String> {
    match panic::catch_unwind(AssertUnwindSafe(f)) {
        Ok(v) => Ok(v),
        Err(_) => Err(LAST_PANIC
            .with(|p| p.borrow_mut().take())
            .unwrap_or_else(|| "<panic>".to_string())),
    }
}

/// True when the panic message comes from one of the monitors' own marked panics
/// (spy containers or the library's verif hooks), i.e. it reports a memory-contract breach.
pub fn is_marked_panic(msg: &str) -> bool {
    msg.contains("VERIF-HOOK") || msg.contains("SPY-")
}

/// Strip the location and volatile numbers out of a panic message to form a stable key.
pub fn panic_key(msg: &str) -> String {
    let head = msg.split(" @ ").next().unwrap_or(msg);
    let loc = msg.split(" @ ").nth(1).unwrap_or("");
    let file = loc.rsplit('/').next().unwrap_or(loc);
    let file = file.split(':').next().unwrap_or(file);
    let mut s = String::new();
    let mut last_digit = false;
    for ch in head.chars().take(60) {
        if ch.is_ascii_digit() {
            if !last_digit {
                s.push('#');
            }
            last_digit = true;
        } else {
            last_digit = false;
            s.push(if ch.is_whitespace() { '_' } else { ch });
        }
    }
    format!("{s}@{file}")
}

pub struct Case<'a> {
    pub ctx: &'a mut Ctx,
    pub rng: Rng,
    pub id: u64,
}

impl Ctx {
    pub fn from_args(property: &str) -> Ctx {
        let mut tier = Tier::Quick;
        let mut seed: u64 = 20260927;
        let mut shard = 0usize;
        let mut nshards = 1usize;
        let mut mode = "dbg".to_string();
        let mut out = None;
        let mut journal = None;
        let mut replay = None;
        let mut verbose = false;
        let mut scale = 1.0;
        let mut depth = 1.0;
        let args: Vec<String> = std::env::args().collect();
        let mut i = 1;
        while i < args.len() {
            let a = args[i].as_str();
            let mut val = || {
                i += 1;
                args.get(i).cloned().unwrap_or_else(|| {
                    eprintln!("missing value for {a}");
                    std::process::exit(3)
                })
            };
            match a {
                "--tier" => {
                    tier = match val().as_str() {
                        "quick" => Tier::Quick,
                        "thorough" => Tier::Thorough,
                        t => {
                            eprintln!("bad tier {t}");
                            std::process::exit(3)
                        },
                    }
                },
                "--seed" => seed = val().parse().expect("seed"),
                "--shard" => {
                    let v = val();
                    let (a, b) = v.split_once('/').expect("shard i/n");
                    shard = a.parse().expect("shard i");
                    nshards = b.parse().expect("shard n");
                },
                "--mode" => mode = val(),
                "--scale" => scale = val().parse().expect("scale"),
                "--depth" => depth = val().parse().expect("depth"),
                "--out" => out = Some(val()),
                "--journal" => {
                    let p = val();
                    journal = Some(
                        std::fs::OpenOptions::new()
                            .create(true)
                            .write(true)
                            .truncate(true)
                            .open(&p)
                            .expect("journal"),
                    );
                },
                "--replay" => replay = Some(val().parse().expect("replay id")),
                "--verbose" => verbose = true,
                other => {
                    eprintln!("unknown argument {other}");
                    std::process::exit(3)
                },
            }
            i += 1;
        }
        install_quiet_panic_hook();
        Ctx {
            property: property.to_string(),
            tier,
            seed,
            shard,
            nshards,
            mode,
            scale,
            depth,
            out,
            journal,
            replay,
            verbose,
            next_id: 0,
            cur_id: 0,
            tick: 0,
            evaluations: 0,
            events: 0,
            distinct: HashSet::new(),
            distinct_overflow: 0,
            counters: BTreeMap::new(),
            maxima: BTreeMap::new(),
            samples: Vec::new(),
            violations: BTreeMap::new(),
            started: std::time::Instant::now(),
        }
    }

    /// deterministic subsampling helper: true once every `n` calls
    pub fn every(&mut self, n: u64) -> bool {
        self.tick += 1;
        self.tick % n == 0
    }

    pub fn thorough(&self) -> bool {
        self.tier == Tier::Thorough
    }

    /// `q` in the quick tier, `t` in the thorough tier, both scaled by `--scale`.
    pub fn budget(&self, q: usize, t: usize) -> usize {
        let b = if self.thorough() { t } else { q } as f64 * self.scale;
        (b.ceil() as usize).max(1)
    }

    /// budget for a *number of cases* (random cases, repetitions): also multiplied by `--depth`,
    /// which the thorough tier uses to go deeper without enlarging the size bounds of the sweeps
    pub fn cbudget(&self, q: usize, t: usize) -> usize {
        ((self.budget(q, t) as f64 * self.depth).ceil() as usize).max(1)
    }

    /// true under the Miri interpreter (3-4 orders of magnitude slower): the binaries switch to
    /// their small workloads. ASan / memcheck run the native workloads, scaled by `--scale`.
    pub fn is_sanitizer_mode(&self) -> bool {
        matches!(self.mode.as_str(), "miri" | "mirirel")
    }

    /// hooks are compiled out in these modes (the external tool is the observer)
    pub fn hooks_off(&self) -> bool {
        matches!(self.mode.as_str(), "miri" | "mirirel" | "asan" | "vg")
    }

    fn journal_write(&mut self, id: u64, kind: &str) {
        if let Some(f) = self.journal.as_mut() {
            use std::io::{Seek, SeekFrom};
            let _ = f.seek(SeekFrom::Start(0));
            let _ = write!(f, "{kind} {id:<20}\n");
        }
    }

    fn take(&mut self, sweep: bool) -> Option<(u64, Rng)> {
        let id = self.next_id;
        self.next_id += 1;
        let owned = if sweep {
            (id % self.nshards as u64) as usize == self.shard
        } else {
            true
        };
        if !owned {
            return None;
        }
        if let Some(r) = self.replay {
            if r != id {
                return None;
            }
        }
        self.cur_id = id;
        self.journal_write(id, if sweep { "S" } else { "R" });
        let stream = if sweep { 0 } else { self.shard as u64 + 1 };
        let rng = Rng::stream(self.seed, &self.property, stream, id);
        Some((id, rng))
    }

    /// Next case of a seed-independent structured sweep: every shard enumerates the same
    /// sequence and executes only its share.
    pub fn sweep_case(&mut self) -> Option<Rng> {
        self.take(true).map(|(_, r)| r)
    }

    /// Next randomly generated case: executed by every shard, each with its own stream.
    pub fn random_case(&mut self) -> Option<Rng> {
        self.take(false).map(|(_, r)| r)
    }

    pub fn case_id(&self) -> u64 {
        self.cur_id
    }

    pub fn count(&mut self, key: &str) {
        self.count_n(key, 1);
    }

    pub fn count_n(&mut self, key: &str, n: u64) {
        if let Some(v) = self.counters.get_mut(key) {
            *v += n;
        } else {
            self.counters.insert(key.to_string(), n);
        }
    }

    pub fn get_count(&self, key: &str) -> u64 {
        self.counters.get(key).copied().unwrap_or(0)
    }

    /// Record the maximum of a quantity (e.g. error/bound ratio) with a note saying where.
    pub fn maximum(&mut self, key: &str, v: f64, note: impl FnOnce() -> String) {
        if !v.is_finite() {
            return;
        }
        match self.maxima.get_mut(key) {
            Some(e) if e.0 >= v => {},
            Some(e) => *e = (v, note()),
            None => {
                self.maxima.insert(key.to_string(), (v, note()));
            },
        }
    }

    /// Register a distinct non-trivial observation class (hashed).
    pub fn distinct(&mut self, key: &str) {
        self.distinct_hash(hash_str(key));
    }

    pub fn distinct_hash(&mut self, h: u64) {
        if self.distinct.len() < DISTINCT_CAP {
            self.distinct.insert(h);
        } else if !self.distinct.contains(&h) {
            self.distinct_overflow += 1;
        }
    }

    pub fn sample(&mut self, s: impl FnOnce() -> String) {
        if self.samples.len() < 6 {
            let v = s();
            self.samples.push(v);
        }
    }

    pub fn violation(&mut self, sig: &str, detail: impl FnOnce() -> String) {
        let sig = format!("{}/{}", self.property, sig);
        if let Some(v) = self.violations.get_mut(&sig) {
            v.count += 1;
            return;
        }
        let d = detail();
        if self.verbose || self.replay.is_some() {
            eprintln!("violation {sig}: {d}");
        }
        self.violations.insert(
            sig.clone(),
            Violation { sig, detail: d, case_id: self.cur_id, count: 1 },
        );
    }

    pub fn n_violation_sigs(&self) -> usize {
        self.violations.len()
    }

    /// Write the result JSON (and the distinct-hash side file) and return the exit code.
    pub fn finish(&mut self) -> i32 {
        let mut s = String::new();
        s.push('{');
        let _ = write!(
            s,
            "\"property\":{},\"mode\":{},\"tier\":{},\"seed\":{},\"shard\":{},\"nshards\":{},",
            js(&self.property),
            js(&self.mode),
            js(if self.thorough() { "thorough" } else { "quick" }),
            self.seed,
            self.shard,
            self.nshards
        );
        let _ = write!(
            s,
            "\"evaluations\":{},\"events\":{},\"distinct\":{},\"distinct_overflow\":{},\"cases\":{},\"wall_s\":{:.3},",
            self.evaluations,
            self.events,
            self.distinct.len(),
            self.distinct_overflow,
            self.next_id,
            self.started.elapsed().as_secs_f64()
        );
        s.push_str("\"counters\":{");
        for (i, (k, v)) in self.counters.iter().enumerate() {
            if i > 0 {
                s.push(',');
            }
            let _ = write!(s, "{}:{}", js(k), v);
        }
        s.push_str("},\"maxima\":{");
        for (i, (k, (v, note))) in self.maxima.iter().enumerate() {
            if i > 0 {
                s.push(',');
            }
            let _ = write!(s, "{}:{{\"value\":{},\"at\":{}}}", js(k), jf(*v), js(note));
        }
        s.push_str("},\"samples\":[");
        for (i, v) in self.samples.iter().enumerate() {
            if i > 0 {
                s.push(',');
            }
            s.push_str(&js(v));
        }
        s.push_str("],\"violations\":[");
        for (i, v) in self.violations.values().enumerate() {
            if i > 0 {
                s.push(',');
            }
            let _ = write!(
                s,
                "{{\"sig\":{},\"detail\":{},\"case_id\":{},\"count\":{}}}",
                js(&v.sig),
                js(&v.detail),
                v.case_id,
                v.count
            );
        }
        s.push_str("]}");
        if let Some(p) = &self.out {
            let mut f = std::fs::File::create(p).expect("create out");
            f.write_all(s.as_bytes()).expect("write out");
            let mut hf = std::fs::File::create(format!("{p}.hashes")).expect("create hashes");
            let mut buf = Vec::with_capacity(self.distinct.len() * 8);
            for h in &self.distinct {
                buf.extend_from_slice(&h.to_le_bytes());
            }
            hf.write_all(&buf).expect("write hashes");
        } else {
            println!("{s}");
        }
        if self.violations.is_empty() { 0 } else { 1 }
    }
}

/// JSON string literal
pub fn js(s: &str) -> String {
    let mut o = String::with_capacity(s.len() + 2);
    o.push('"');
    for ch in s.chars() {
        match ch {
            '"' => o.push_str("\\\""),
            '\\' => o.push_str("\\\\"),
            '\n' => o.push_str("\\n"),
            '\r' => o.push_str("\\r"),
            '\t' => o.push_str("\\t"),
            c if (c as u32) < 0x20 => {
                let _ = write!(o, "\\u{:04x}", c as u32);
            },
            c => o.push(c),
        }
    }
    o.push('"');
    o
}

/// JSON number (non-finite → null)
pub fn jf(v: f64) -> String {
    if v.is_finite() { format!("{v:e}") } else { "null".to_string() }
}
