//! tvmon — runtime monitors for tevec (see /verif/DESIGN.md).
pub mod backends;
pub mod ctx;
pub mod wl;
pub mod model;
pub mod monitor;
pub mod rng;
pub mod rollreg;
pub mod runner;
pub mod spy;

pub use ctx::{Ctx, Tier, catch, is_marked_panic, panic_key};
