//! Reference models (from-scratch, deliberately naive) and the comparison rule of DESIGN §5.1.
//!
//! Nothing in this file calls into tevec. Expected values are computed from scratch on the
//! window (two-pass, centred, compensated summation); the accepted error is a first-order
//! forward bound for an algorithm that keeps raw power sums incrementally: every sum is
//! perturbed by its a-priori error (closed-form rounding + drift over the history) and the
//! induced change of the statistic is the half-width of the accepted interval.

pub const EPS_FLOOR: f64 = 1e-14;
pub const F64_EPS: f64 = 1.1102230246251565e-16; // 2^-53
pub const F32_EPS: f64 = 5.960464477539063e-8; // 2^-24

#[derive(Clone, Debug)]
pub enum Expect {
    /// must be null
    Null,
    /// must be null; the tag names the reason and becomes part of the violation signature
    NullTag(&'static str),
    /// must be non-null and exactly this value
    Exact(f64),
    /// must be non-null and within `hw` of `v`
    Approx { v: f64, hw: f64 },
    /// any of the alternatives
    OneOf(Vec<Expect>),
    /// unconstrained by the property (reason)
    Any(&'static str),
    /// must be non-null, value not compared (ill-conditioned; reason)
    NonNull(&'static str),
}

/// A decoded observation: `null` per the output encoding, `v` the numeric value otherwise.
#[derive(Clone, Copy, Debug, PartialEq)]
pub struct Obs {
    pub null: bool,
    pub v: f64,
}

impl Obs {
    pub fn null() -> Obs {
        Obs { null: true, v: f64::NAN }
    }
    pub fn val(v: f64) -> Obs {
        Obs { null: false, v }
    }
}

#[derive(Clone, Copy, Debug, PartialEq, Eq)]
pub enum Verdict {
    Ok,
    /// accepted without comparing a value (Any / NonNull)
    OkUnconstrained,
    NullMismatch,
    ValueMismatch,
}

impl Expect {
    pub fn approx(v: f64, hw: f64) -> Expect {
        if !v.is_finite() || !hw.is_finite() {
            return Expect::NonNull("non-finite expectation or bound");
        }
        Expect::Approx { v, hw }
    }

    /// `extra_rel`: additional relative slack (e.g. f32 output rounding)
    pub fn check(&self, o: Obs, extra_rel: f64) -> Verdict {
        match self {
            Expect::Null | Expect::NullTag(_) => {
                if o.null { Verdict::Ok } else { Verdict::NullMismatch }
            },
            Expect::Exact(v) => {
                if o.null {
                    Verdict::NullMismatch
                } else if o.v == *v || (extra_rel > 0.0 && (o.v - v).abs() <= extra_rel * v.abs()) {
                    Verdict::Ok
                } else {
                    Verdict::ValueMismatch
                }
            },
            Expect::Approx { v, hw } => {
                if o.null {
                    Verdict::NullMismatch
                } else if (o.v - v).abs() <= hw + extra_rel * v.abs() {
                    Verdict::Ok
                } else {
                    Verdict::ValueMismatch
                }
            },
            Expect::OneOf(alts) => {
                let mut worst = Verdict::ValueMismatch;
                let mut all_null_mismatch = true;
                for a in alts {
                    match a.check(o, extra_rel) {
                        Verdict::Ok => return Verdict::Ok,
                        Verdict::OkUnconstrained => return Verdict::OkUnconstrained,
                        Verdict::NullMismatch => {},
                        Verdict::ValueMismatch => all_null_mismatch = false,
                    }
                }
                if all_null_mismatch {
                    worst = Verdict::NullMismatch;
                }
                worst
            },
            Expect::Any(_) => Verdict::OkUnconstrained,
            Expect::NonNull(_) => {
                if o.null { Verdict::NullMismatch } else { Verdict::OkUnconstrained }
            },
        }
    }

    pub fn is_constrained_value(&self) -> bool {
        matches!(self, Expect::Exact(_) | Expect::Approx { .. } | Expect::OneOf(_))
    }

    /// error / bound ratio for Approx expectations (evidence: safety margin of the tolerance)
    pub fn ratio(&self, o: Obs) -> Option<f64> {
        match self {
            Expect::Approx { v, hw } if !o.null && *hw > 0.0 => Some((o.v - v).abs() / hw),
            _ => None,
        }
    }

    pub fn describe(&self) -> String {
        match self {
            Expect::Null => "null".into(),
            Expect::NullTag(t) => format!("null[{t}]"),
            Expect::Exact(v) => format!("=={v:?}"),
            Expect::Approx { v, hw } => format!("{v:?}±{hw:e}"),
            Expect::OneOf(a) => {
                format!("oneof({})", a.iter().map(|e| e.describe()).collect::<Vec<_>>().join("|"))
            },
            Expect::Any(r) => format!("any[{r}]"),
            Expect::NonNull(r) => format!("nonnull[{r}]"),
        }
    }
}

// ---------------------------------------------------------------------------------------
// from-scratch statistics
// ---------------------------------------------------------------------------------------

/// Neumaier compensated sum
pub fn csum(xs: impl Iterator<Item = f64>) -> f64 {
    let mut s = 0.0f64;
    let mut c = 0.0f64;
    for x in xs {
        let t = s + x;
        if s.abs() >= x.abs() {
            c += (s - t) + x;
        } else {
            c += (x - t) + s;
        }
        s = t;
    }
    s + c
}

pub fn mean(v: &[f64]) -> f64 {
    csum(v.iter().copied()) / v.len() as f64
}

/// central moment sum: Σ (v - m)^p
pub fn cmom_sum(v: &[f64], m: f64, p: i32) -> f64 {
    csum(v.iter().map(|x| (x - m).powi(p)))
}

pub fn var_sample(v: &[f64]) -> Option<f64> {
    if v.len() < 2 {
        return None;
    }
    let m = mean(v);
    Some(cmom_sum(v, m, 2) / (v.len() - 1) as f64)
}

pub fn var_pop(v: &[f64]) -> Option<f64> {
    if v.is_empty() {
        return None;
    }
    let m = mean(v);
    Some(cmom_sum(v, m, 2) / v.len() as f64)
}

/// adjusted Fisher-Pearson skewness  sqrt(n(n-1))/(n-2) * m3 / m2^1.5 ; None if undefined
pub fn skew_adj(v: &[f64]) -> Option<f64> {
    let n = v.len();
    if n < 3 {
        return None;
    }
    let nf = n as f64;
    let m = mean(v);
    let m2 = cmom_sum(v, m, 2) / nf;
    if m2 <= 0.0 {
        return None;
    }
    let m3 = cmom_sum(v, m, 3) / nf;
    Some((nf * (nf - 1.0)).sqrt() / (nf - 2.0) * m3 / m2.powf(1.5))
}

/// excess kurtosis (adjusted): ((n^2-1) m4/m2^2 - 3 (n-1)^2) / ((n-2)(n-3))
pub fn kurt_adj(v: &[f64]) -> Option<f64> {
    let n = v.len();
    if n < 4 {
        return None;
    }
    let nf = n as f64;
    let m = mean(v);
    let m2 = cmom_sum(v, m, 2) / nf;
    if m2 <= 0.0 {
        return None;
    }
    let m4 = cmom_sum(v, m, 4) / nf;
    Some(((nf * nf - 1.0) * m4 / (m2 * m2) - 3.0 * (nf - 1.0) * (nf - 1.0)) / ((nf - 2.0) * (nf - 3.0)))
}

pub fn maxabs(v: &[f64]) -> f64 {
    v.iter().fold(0.0f64, |a, x| a.max(x.abs()))
}

// ---------------------------------------------------------------------------------------
// perturbation bound
// ---------------------------------------------------------------------------------------

/// First-order forward bound: evaluate `g` at `s` and at `s ± d_p e_p`; half-width is twice
/// the sum of the largest one-sided deviations. Non-finite anywhere → infinite half-width.
pub fn perturb<const K: usize>(g: impl Fn(&[f64; K]) -> f64, s: [f64; K], d: [f64; K]) -> (f64, f64) {
    let c = g(&s);
    if !c.is_finite() {
        return (c, f64::INFINITY);
    }
    let mut hw = 0.0;
    for p in 0..K {
        if d[p] == 0.0 {
            continue;
        }
        let mut sp = s;
        sp[p] = s[p] + d[p];
        let a = g(&sp);
        sp[p] = s[p] - d[p];
        let b = g(&sp);
        if !a.is_finite() || !b.is_finite() {
            return (c, f64::INFINITY);
        }
        hw += (a - c).abs().max((b - c).abs());
    }
    (c, 2.0 * hw + 8.0 * F64_EPS * c.abs())
}

/// Context for the a-priori error of incrementally kept power sums.
#[derive(Clone, Copy, Debug)]
pub struct ErrCtx {
    /// all partial sums are exactly representable (exact class, §5.1): no drift term
    pub exact: bool,
    /// number of accumulator updates so far (adds + removes)
    pub ops: f64,
    /// largest |value| that has passed through the accumulators so far
    pub hist_maxabs: f64,
    /// (clamped) window length
    pub w: f64,
    /// unit roundoff of the accumulators
    pub eps: f64,
}

impl ErrCtx {
    /// a-priori absolute error of a running sum of terms bounded by `term_bound` (per element)
    /// whose current absolute sum is `abs_sum`
    pub fn delta(&self, abs_sum: f64, term_bound: f64) -> f64 {
        // the drift term applies to exact-grid data as well: that raw power sums of such data are
        // exact is a fact about one algorithm, not about the property (a Welford-style update of the
        // mean / M2 is correct "up to rounding" and not exact on integers)
        let drift = self.ops * self.w * term_bound;
        self.eps * (16.0 * abs_sum + 4.0 * drift)
    }
    pub fn aggregate(n: usize) -> ErrCtx {
        // n recursive additions, each with a partial sum of at most n terms
        ErrCtx { exact: false, ops: n as f64, hist_maxabs: 0.0, w: n as f64, eps: F64_EPS }
    }
}

#[derive(Clone, Copy, Debug, PartialEq, Eq)]
pub enum Floor {
    Below,
    Zone,
    Above,
}

/// Where does the one-pass population variance `S2/n - (S1/n)^2` sit relative to the EPS
/// floor, given the a-priori error of the sums?
pub fn var_floor(vals: &[f64], e: &ErrCtx) -> (Floor, f64, f64) {
    let n = vals.len() as f64;
    let s1 = csum(vals.iter().copied());
    let s2 = csum(vals.iter().map(|x| x * x));
    let a1 = csum(vals.iter().map(|x| x.abs()));
    let m = e.hist_maxabs.max(maxabs(vals));
    let d = [e.delta(a1, m), e.delta(s2, m * m)];
    let (_, hw) = perturb(|s: &[f64; 2]| s[1] / n - (s[0] / n).powi(2), [s1, s2], d);
    // centre from the two-pass value (more accurate than the raw formula)
    let c = var_pop(vals).unwrap_or(f64::NAN);
    let f = if !hw.is_finite() {
        Floor::Zone
    } else if c + hw <= EPS_FLOOR {
        Floor::Below
    } else if c - hw > EPS_FLOOR {
        Floor::Above
    } else {
        Floor::Zone
    };
    (f, c, hw)
}

/// Relative threshold beyond which a position counts as ill-conditioned (not compared).
pub const ILL_REL: f64 = 1e-6;

pub fn approx_or_ill(v: f64, hw: f64) -> Expect {
    if !v.is_finite() || !hw.is_finite() {
        return Expect::NonNull("non-finite bound");
    }
    if hw > ILL_REL * v.abs().max(1.0) {
        Expect::NonNull("ill-conditioned")
    } else {
        Expect::Approx { v, hw }
    }
}

// ---------------------------------------------------------------------------------------
// moment statistics on a window of valid values with bounds
// ---------------------------------------------------------------------------------------

#[derive(Clone, Copy, Debug, PartialEq, Eq, Hash)]
pub enum Moment {
    Sum,
    Mean,
    Std,
    Var,
    Skew,
    Kurt,
}

fn raw_sums(vals: &[f64]) -> ([f64; 4], [f64; 4]) {
    let mut s = [0.0; 4];
    let mut a = [0.0; 4];
    for p in 0..4 {
        s[p] = csum(vals.iter().map(|x| x.powi(p as i32 + 1)));
        a[p] = csum(vals.iter().map(|x| x.abs().powi(p as i32 + 1)));
    }
    (s, a)
}

fn raw_var_pop(s: &[f64; 4], n: f64) -> f64 {
    s[1] / n - (s[0] / n).powi(2)
}

fn raw_skew(s: &[f64; 4], n: f64) -> f64 {
    let m = s[0] / n;
    let var = raw_var_pop(s, n);
    let sd = var.sqrt();
    let ex3 = s[2] / n;
    let g = ex3 / sd.powi(3) - 3.0 * m / sd - (m / sd).powi(3);
    (n * (n - 1.0)).sqrt() / (n - 2.0) * g
}

fn raw_kurt(s: &[f64; 4], n: f64) -> f64 {
    let m = s[0] / n;
    let var = raw_var_pop(s, n);
    let ex3 = s[2] / n;
    let ex4 = s[3] / n;
    let r = m * m / var;
    let k = (ex4 - 4.0 * m * ex3) / (var * var) + 6.0 * r + 3.0 * r * r;
    ((n * n - 1.0) * k - 3.0 * (n - 1.0) * (n - 1.0)) / ((n - 2.0) * (n - 3.0))
}

/// Expected value of a moment statistic on the valid values of a window, assuming the
/// count requirement (min_periods, intrinsic minimum) is already met.
pub fn moment_expect(which: Moment, vals: &[f64], e: &ErrCtx) -> Expect {
    let n = vals.len();
    let nf = n as f64;
    if n == 0 {
        return match which {
            // the running sum of an emptied window keeps the rounding residue of its history
            Moment::Sum if e.exact => Expect::Exact(0.0),
            Moment::Sum => approx_or_ill(0.0, e.delta(0.0, e.hist_maxabs)),
            _ => Expect::Any("statistic of an empty window"),
        };
    }
    let (s, a) = raw_sums(vals);
    let m = e.hist_maxabs.max(maxabs(vals));
    let d = [
        e.delta(a[0], m),
        e.delta(a[1], m * m),
        e.delta(a[2], m * m * m),
        e.delta(a[3], m * m * m * m),
    ];
    match which {
        Moment::Sum => {
            let v = s[0];
            let hw = d[0] + 4.0 * e.eps * v.abs();
            if e.exact { Expect::Exact(v) } else { approx_or_ill(v, hw) }
        },
        Moment::Mean => {
            let v = mean(vals);
            approx_or_ill(v, d[0] / nf + 4.0 * F64_EPS * v.abs())
        },
        Moment::Var | Moment::Std => {
            if n < 2 {
                return Expect::Null;
            }
            let (fl, vp, _) = var_floor(vals, e);
            let adj = nf / (nf - 1.0);
            let g = |s: &[f64; 4]| {
                let v = raw_var_pop(s, nf) * adj;
                if which == Moment::Std { v.max(0.0).sqrt() } else { v }
            };
            let (_, hw) = perturb(g, s, d);
            let c = {
                let v = var_sample(vals).unwrap();
                if which == Moment::Std { v.sqrt() } else { v }
            };
            let unfloored = if vp > 0.0 || which == Moment::Var {
                approx_or_ill(c, hw)
            } else {
                Expect::Exact(0.0)
            };
            match fl {
                Floor::Below => {
                    // library documents a floor at EPS: result 0 (which is also the true
                    // value up to sqrt(EPS)); accept both
                    Expect::OneOf(vec![Expect::Exact(0.0), unfloored])
                },
                Floor::Zone => Expect::OneOf(vec![Expect::Exact(0.0), unfloored, Expect::NonNull("floor zone")]),
                Floor::Above => unfloored,
            }
        },
        Moment::Skew | Moment::Kurt => {
            let need = if which == Moment::Skew { 3 } else { 4 };
            if n < need {
                return Expect::Null;
            }
            let (fl, vp, _) = var_floor(vals, e);
            if vals.iter().all(|v| v.to_bits() == vals[0].to_bits()) {
                // constant window: the statistic is 0/0. Any from-scratch evaluation in floating
                // point gives NaN or some value within the attainable range of the statistic on n
                // points (|G1| <= sqrt(n), |G2| <= 10 n^2); whatever convention the library returns
                // (0, null), cancellation noise of the order 1e8 is not "equal up to rounding" to any
                // of them.
                let range = if which == Moment::Skew { nf.sqrt() * 1.000001 } else { 10.0 * nf * nf };
                return Expect::OneOf(vec![Expect::Null, Expect::Approx { v: 0.0, hw: range }]);
            }
            if vp <= 0.0 {
                return Expect::Any("skew/kurt of a window without spread in floating point");
            }
            let (c, hw) = if which == Moment::Skew {
                let (_, hw) = perturb(|s| raw_skew(s, nf), s, d);
                (skew_adj(vals).unwrap(), hw)
            } else {
                let (_, hw) = perturb(|s| raw_kurt(s, nf), s, d);
                (kurt_adj(vals).unwrap(), hw)
            };
            let unfloored = approx_or_ill(c, hw);
            match fl {
                Floor::Below | Floor::Zone => Expect::NonNull("variance at the EPS floor"),
                Floor::Above => unfloored,
            }
        },
    }
}

// ---------------------------------------------------------------------------------------
// weighted averages
// ---------------------------------------------------------------------------------------

/// exponentially weighted average over the valid values (oldest first), alpha = 2/w
pub fn ewm_expect(vals: &[f64], w: usize, hist_maxabs: f64) -> Expect {
    let n = vals.len();
    if n == 0 {
        return Expect::Any("ewm of an empty window");
    }
    let alpha = 2.0 / w as f64;
    let oma = 1.0 - alpha;
    // weights oma^k on the k-th most recent
    let mut num = Vec::with_capacity(n);
    let mut den = Vec::with_capacity(n);
    let mut wk = 1.0;
    for k in 0..n {
        num.push(wk * vals[n - 1 - k]);
        den.push(wk);
        wk *= oma;
    }
    let d = csum(den.iter().copied());
    if d == 0.0 {
        return Expect::Any("ewm weights sum to zero");
    }
    let v = csum(num.iter().copied()) / d;
    let m = hist_maxabs.max(maxabs(vals));
    // damped recurrence: error does not grow with history (|oma| <= 1); generous constant
    let hw = 64.0 * F64_EPS * (w as f64 + 4.0) * m / d.abs().min(1.0).max(alpha.min(1.0)) + 8.0 * F64_EPS * v.abs();
    approx_or_ill(v, hw)
}

/// linearly weighted average: weights 1..n, oldest = 1
pub fn wma_expect(vals: &[f64], e: &ErrCtx) -> Expect {
    let n = vals.len();
    if n == 0 {
        return Expect::Any("wma of an empty window");
    }
    let nf = n as f64;
    let div = nf * (nf + 1.0) / 2.0;
    let sxt = csum(vals.iter().enumerate().map(|(j, v)| (j + 1) as f64 * v));
    let axt = csum(vals.iter().enumerate().map(|(j, v)| (j + 1) as f64 * v.abs()));
    let v = sxt / div;
    let hw = trend_sxt_delta(axt, e, vals) / div + 4.0 * F64_EPS * v.abs();
    approx_or_ill(v, hw)
}

/// a-priori error of the shifted-subtraction accumulator Σ t·x (drifts quadratically with the
/// history on inexact data because each step subtracts the running plain sum)
fn trend_sxt_delta(axt: f64, e: &ErrCtx, vals: &[f64]) -> f64 {
    let m = e.hist_maxabs.max(maxabs(vals));
    let drift = e.ops * e.w * e.w * m + e.ops * e.ops * e.w * m;
    e.eps * (16.0 * axt + 4.0 * drift)
}

// ---------------------------------------------------------------------------------------
// time-trend regression of the valid values on t = 1..n
// ---------------------------------------------------------------------------------------

#[derive(Clone, Copy, Debug, PartialEq, Eq, Hash)]
pub enum Trend {
    /// fitted value at t = n
    Fit,
    /// forecast at t = n + 1
    Forecast,
    Slope,
    Intercept,
    /// mean squared residual  Σ e² / n
    ResidMean,
}

pub fn trend_ols(vals: &[f64]) -> Option<(f64, f64, f64)> {
    let n = vals.len();
    if n < 2 {
        return None;
    }
    let nf = n as f64;
    let tbar = (nf + 1.0) / 2.0;
    let ybar = mean(vals);
    let sxy = csum(vals.iter().enumerate().map(|(j, y)| ((j + 1) as f64 - tbar) * (y - ybar)));
    let sxx = csum((1..=n).map(|t| (t as f64 - tbar).powi(2)));
    let slope = sxy / sxx;
    let icpt = ybar - slope * tbar;
    let sse = csum(vals.iter().enumerate().map(|(j, y)| (y - icpt - slope * (j + 1) as f64).powi(2)));
    Some((slope, icpt, sse))
}

pub fn trend_expect(which: Trend, vals: &[f64], e: &ErrCtx) -> Expect {
    let n = vals.len();
    if n == 0 {
        return Expect::Any("trend of an empty window");
    }
    if n < 2 {
        return Expect::Any("trend regression needs two points");
    }
    let nf = n as f64;
    let (slope, icpt, sse) = trend_ols(vals).unwrap();
    let s = csum(vals.iter().copied());
    let a = csum(vals.iter().map(|v| v.abs()));
    let sxt = csum(vals.iter().enumerate().map(|(j, v)| (j + 1) as f64 * v));
    let axt = csum(vals.iter().enumerate().map(|(j, v)| (j + 1) as f64 * v.abs()));
    let sxx = csum(vals.iter().map(|v| v * v));
    let m = e.hist_maxabs.max(maxabs(vals));
    let d = [e.delta(a, m), trend_sxt_delta(axt, e, vals), e.delta(sxx, m * m)];
    let st = nf * (nf + 1.0) / 2.0;
    let stt = nf * (nf + 1.0) * (2.0 * nf + 1.0) / 6.0;
    let coef = move |q: &[f64; 3]| {
        let b = (nf * q[1] - st * q[0]) / (nf * stt - st * st);
        let a0 = (q[0] - b * st) / nf;
        (b, a0)
    };
    let (c, g): (f64, Box<dyn Fn(&[f64; 3]) -> f64>) = match which {
        Trend::Slope => (slope, Box::new(move |q| coef(q).0)),
        Trend::Intercept => (icpt, Box::new(move |q| coef(q).1)),
        Trend::Fit => (icpt + slope * nf, Box::new(move |q| {
            let (b, a0) = coef(q);
            a0 + b * nf
        })),
        Trend::Forecast => (icpt + slope * (nf + 1.0), Box::new(move |q| {
            let (b, a0) = coef(q);
            a0 + b * (nf + 1.0)
        })),
        Trend::ResidMean => (sse / nf, Box::new(move |q| {
            let (b, a0) = coef(q);
            (q[2] - 2.0 * a0 * q[0] - 2.0 * b * q[1] + a0 * a0 * nf + 2.0 * a0 * b * st + b * b * stt) / nf
        })),
    };
    let (_, mut hw) = perturb(|q| g(q), [s, sxt, sxx], d);
    if which == Trend::ResidMean {
        // the expanded quadratic form cancels catastrophically: its terms are of the size of
        // Σx²; add the rounding of those terms explicitly
        hw += 64.0 * F64_EPS * (sxx + icpt * icpt * nf + slope * slope * stt) / nf;
        if hw > ILL_REL * (sse / nf).abs().max(1.0) {
            return Expect::NonNull("ill-conditioned");
        }
        return Expect::Approx { v: c, hw };
    }
    approx_or_ill(c, hw)
}

// ---------------------------------------------------------------------------------------
// two-series statistics on pairwise-complete observations: y (first series) on x (second)
// ---------------------------------------------------------------------------------------

#[derive(Clone, Copy, Debug, PartialEq, Eq, Hash)]
pub enum Pair {
    Cov,
    Corr,
    Alpha,
    Beta,
    ResidMean,
    ResidStd,
    ResidSkew,
    /// SSE of the (alpha, beta, sse) triple
    Sse,
}

pub struct PairStats {
    pub n: usize,
    pub xbar: f64,
    pub ybar: f64,
    pub sxx: f64,
    pub syy: f64,
    pub sxy: f64,
}

pub fn pair_stats(y: &[f64], x: &[f64]) -> PairStats {
    let n = y.len();
    let xbar = if n > 0 { mean(x) } else { f64::NAN };
    let ybar = if n > 0 { mean(y) } else { f64::NAN };
    PairStats {
        n,
        xbar,
        ybar,
        sxx: csum(x.iter().map(|v| (v - xbar).powi(2))),
        syy: csum(y.iter().map(|v| (v - ybar).powi(2))),
        sxy: csum(x.iter().zip(y).map(|(a, b)| (a - xbar) * (b - ybar))),
    }
}

/// `y`,`x`: the pairwise-complete observations of the window (first series = y).
pub fn pair_expect(which: Pair, y: &[f64], x: &[f64], e: &ErrCtx, hist_maxabs_xy: (f64, f64)) -> Expect {
    let n = y.len();
    let nf = n as f64;
    if n == 0 {
        return Expect::Any("two-series statistic of an empty window");
    }
    let ps = pair_stats(y, x);
    let my = hist_maxabs_xy.0.max(maxabs(y));
    let mx = hist_maxabs_xy.1.max(maxabs(x));
    // raw sums: [Sy, Sx, Sxx, Sxy, Syy]
    let s = [
        csum(y.iter().copied()),
        csum(x.iter().copied()),
        csum(x.iter().map(|v| v * v)),
        csum(x.iter().zip(y).map(|(a, b)| a * b)),
        csum(y.iter().map(|v| v * v)),
    ];
    let d = [
        e.delta(csum(y.iter().map(|v| v.abs())), my),
        e.delta(csum(x.iter().map(|v| v.abs())), mx),
        e.delta(s[2], mx * mx),
        e.delta(csum(x.iter().zip(y).map(|(a, b)| (a * b).abs())), mx * my),
        e.delta(s[4], my * my),
    ];
    let beta_raw = move |q: &[f64; 5]| (nf * q[3] - q[0] * q[1]) / (nf * q[2] - q[1] * q[1]);
    let alpha_raw = move |q: &[f64; 5]| (q[0] - beta_raw(q) * q[1]) / nf;
    match which {
        Pair::Cov => {
            if n < 2 {
                return Expect::Null;
            }
            let c = ps.sxy / (nf - 1.0);
            let (_, hw) = perturb(|q| (q[3] - q[0] * q[1] / nf) / (nf - 1.0), s, d);
            approx_or_ill(c, hw)
        },
        Pair::Corr => {
            if n < 2 {
                return Expect::Null;
            }
            // floor on either population variance
            let ex = ErrCtx { hist_maxabs: mx, ..*e };
            let ey = ErrCtx { hist_maxabs: my, ..*e };
            let (fx, vx, _) = var_floor(x, &ex);
            let (fy, vy, _) = var_floor(y, &ey);
            if vx <= 0.0 || vy <= 0.0 {
                // correlation with a zero-variance side is mathematically undefined; C04 does not
                // fix its value (the library's EPS floor usually, not always, yields null)
                return Expect::Any("correlation with a zero-variance side is undefined");
            }
            if fx == Floor::Below || fy == Floor::Below {
                return Expect::OneOf(vec![Expect::Null, Expect::NonNull("variance below EPS floor")]);
            }
            if fx == Floor::Zone || fy == Floor::Zone {
                return Expect::Any("variance in the EPS floor zone");
            }
            let c = ps.sxy / (ps.sxx * ps.syy).sqrt();
            let g = |q: &[f64; 5]| {
                let va = q[4] / nf - (q[0] / nf).powi(2);
                let vb = q[2] / nf - (q[1] / nf).powi(2);
                (q[3] / nf - q[0] * q[1] / (nf * nf)) / (va * vb).sqrt()
            };
            let (_, hw) = perturb(g, s, d);
            approx_or_ill(c, hw)
        },
        Pair::Beta | Pair::Alpha | Pair::Sse | Pair::ResidMean | Pair::ResidStd | Pair::ResidSkew => {
            if n < 2 {
                return Expect::Any("regression needs two observations");
            }
            if ps.sxx <= 0.0 {
                return Expect::Any("regression on a constant regressor is undefined");
            }
            // denominator within its error of zero → borderline
            let (den, den_hw) = perturb(|q| nf * q[2] - q[1] * q[1], s, d);
            if !(den_hw.is_finite()) || den.abs() <= 4.0 * den_hw {
                return Expect::Any("regression denominator within rounding of zero");
            }
            let beta = ps.sxy / ps.sxx;
            let alpha = ps.ybar - beta * ps.xbar;
            let resid: Vec<f64> = y.iter().zip(x).map(|(yy, xx)| yy - alpha - beta * xx).collect();
            let sse = csum(resid.iter().map(|r| r * r));
            let (_, hw_b) = perturb(beta_raw, s, d);
            let (_, hw_a) = perturb(alpha_raw, s, d);
            match which {
                Pair::Beta => approx_or_ill(beta, hw_b),
                Pair::Alpha => approx_or_ill(alpha, hw_a),
                Pair::Sse => {
                    // SSE = Syy - a Sy - b Sxy : cancels; terms of size Syy
                    let g = |q: &[f64; 5]| q[4] - alpha_raw(q) * q[0] - beta_raw(q) * q[3];
                    let (_, mut hw) = perturb(g, s, d);
                    hw += 64.0 * F64_EPS * (s[4] + (alpha * s[0]).abs() + (beta * s[3]).abs());
                    if !hw.is_finite() || hw > ILL_REL * sse.abs().max(1.0) {
                        Expect::NonNull("ill-conditioned")
                    } else {
                        Expect::Approx { v: sse, hw }
                    }
                },
                _ => {
                    if !hw_a.is_finite() || !hw_b.is_finite() {
                        return Expect::NonNull("ill-conditioned");
                    }
                    // per-residual error from the coefficient errors and the residual's own rounding
                    let dres = hw_a + hw_b * mx + 8.0 * F64_EPS * (my + alpha.abs() + beta.abs() * mx);
                    match which {
                        Pair::ResidMean => {
                            // mathematically zero
                            let hw = 2.0 * dres;
                            if hw > ILL_REL { Expect::NonNull("ill-conditioned") } else { Expect::Approx { v: 0.0, hw } }
                        },
                        Pair::ResidStd => {
                            // sample std of the residuals (their mean is 0): sqrt(SSE/(n-1))
                            let sd = (sse / (nf - 1.0)).sqrt();
                            let vpop = sse / nf;
                            let hw = 2.0 * dres * (nf / (nf - 1.0)).sqrt() + 32.0 * F64_EPS * sd;
                            let vhw = 4.0 * dres * (vpop.sqrt() + dres);
                            let unfl = approx_or_ill(sd, hw);
                            if vpop + vhw <= EPS_FLOOR {
                                Expect::OneOf(vec![Expect::Exact(0.0), unfl])
                            } else if vpop - vhw > EPS_FLOOR {
                                unfl
                            } else {
                                Expect::OneOf(vec![Expect::Exact(0.0), unfl, Expect::NonNull("floor zone")])
                            }
                        },
                        Pair::ResidSkew => {
                            if n < 3 {
                                return Expect::Null;
                            }
                            let vpop = sse / nf;
                            let vhw = 4.0 * dres * (vpop.sqrt() + dres);
                            if vpop <= 0.0 {
                                return Expect::Any("residual skewness of a perfect fit is undefined");
                            }
                            if vpop - vhw <= EPS_FLOOR {
                                return Expect::NonNull("residual variance at the EPS floor");
                            }
                            let sd = vpop.sqrt();
                            let g1 = csum(resid.iter().map(|r| r.powi(3))) / nf / (sd * sd * sd);
                            let adj = (nf * (nf - 1.0)).sqrt() / (nf - 2.0);
                            // the library uses the residuals' own (≈0) mean; ours is centred on 0
                            let c = skew_adj(&resid).unwrap_or(adj * g1);
                            let hw = 2.0 * adj * (3.0 + 3.0 * g1.abs()) * (dres / sd) + 64.0 * F64_EPS * (1.0 + c.abs());
                            approx_or_ill(c, hw)
                        },
                        _ => unreachable!(),
                    }
                },
            }
        },
    }
}

// ---------------------------------------------------------------------------------------
// order statistics helpers
// ---------------------------------------------------------------------------------------

/// average rank of `v` among `vals` (ascending): 1 + #{a<v} + (#{a==v}-1)/2
pub fn avg_rank(v: f64, vals: &[f64]) -> f64 {
    let less = vals.iter().filter(|a| **a < v).count() as f64;
    let eq = vals.iter().filter(|a| **a == v).count() as f64;
    1.0 + less + (eq - 1.0) / 2.0
}

pub fn sorted(vals: &[f64]) -> Vec<f64> {
    let mut s = vals.to_vec();
    s.sort_by(|a, b| a.partial_cmp(b).unwrap());
    s
}

/// binomial fractional-difference weights (-1)^k C(d,k), k = 0..n
pub fn fdiff_weights(d: f64, n: usize) -> Vec<f64> {
    let mut w = Vec::with_capacity(n);
    let mut c = 1.0f64;
    for k in 0..n {
        if k > 0 {
            c = c * (d - k as f64 + 1.0) / k as f64 * -1.0;
        }
        w.push(c);
    }
    w
}
