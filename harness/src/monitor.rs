//! Shared judging of one rolling call against its reference expectation.

use crate::ctx::{Ctx, is_marked_panic, panic_key};
use crate::wl::{Series, fmt_series};
use crate::model::{Expect, Obs, Verdict};
use crate::rng::hash_str;
use crate::rollreg::{OutElem, OutKind, Path, Rf, check_obs};

pub struct CallInfo<'a> {
    pub rf: Rf,
    /// backend / element type / output type combination
    pub label: &'a str,
    pub w: usize,
    pub mp: Option<usize>,
    pub path: Path,
    pub x: &'a Series,
    pub y: Option<&'a Series>,
    /// workload class (value class + null pattern), part of the distinct-observation key
    pub class: &'a str,
}

impl CallInfo<'_> {
    pub fn describe(&self) -> String {
        let mut s = format!(
            "{} [{}] w={} min_periods={:?} path={:?} x={}",
            self.rf.name(),
            self.label,
            self.w,
            self.mp,
            self.path,
            fmt_series(self.x)
        );
        if let Some(y) = self.y {
            s.push_str(&format!(" y={}", fmt_series(y)));
        }
        if let Rf::Fdiff(d) | Rf::VFdiff(d) = self.rf {
            s.push_str(&format!(" d={d}"));
        }
        s
    }
}

#[derive(Clone, Copy)]
pub struct JudgeOpts {
    /// compare values (else only the null mask / length / no-panic)
    pub values: bool,
    /// positions at which the null mask is not judged (e.g. DESIGN §5.3)
    pub skip_mask: bool,
    /// a panic is an accepted outcome (C10 degenerate parameters); still counted
    pub panic_ok: bool,
}

impl Default for JudgeOpts {
    fn default() -> Self {
        JudgeOpts { values: true, skip_mask: false, panic_ok: false }
    }
}

fn fmt_obs(o: Obs) -> String {
    if o.null { "null".into() } else { format!("{:?}", o.v) }
}

/// Judge one executed call. Returns the number of value-compared (constrained) positions.
pub fn judge<U: OutElem>(
    ctx: &mut Ctx,
    ci: &CallInfo,
    result: Result<Vec<U>, String>,
    exp: &[Expect],
    opts: JudgeOpts,
) -> usize {
    ctx.evaluations += 1;
    let fname = ci.rf.name();
    ctx.count(&format!("calls.{fname}"));
    let out = match result {
        Err(p) => {
            if is_marked_panic(&p) {
                ctx.violation(&format!("{fname}/memory/{}", panic_key(&p)), || {
                    format!("marked memory-contract panic: {p}; call: {}", ci.describe())
                });
            } else if opts.panic_ok {
                ctx.count("clean_panics");
            } else {
                ctx.violation(&format!("{fname}/panic/{}", panic_key(&p)), || {
                    format!("panic: {p}; call: {}", ci.describe())
                });
            }
            return 0;
        },
        Ok(v) => v,
    };
    if out.len() != ci.x.len() {
        ctx.violation(&format!("{fname}/length"), || {
            format!("output length {} != input length {}; call: {}", out.len(), ci.x.len(), ci.describe())
        });
        return 0;
    }
    let mut compared = 0usize;
    let w = ci.w;
    for (i, (u, e)) in out.iter().zip(exp).enumerate() {
        ctx.events += 1;
        if u.is_poison() {
            ctx.violation(&format!("{fname}/poison"), || {
                format!("output slot {i} holds the uninit poison pattern; call: {}", ci.describe())
            });
            continue;
        }
        let o = u.obs();
        let e_eff: &Expect = e;
        let mut verdict = check_obs(e_eff, o, U::KIND);
        if !opts.values {
            // only the mask is of interest: a value mismatch is not judged here
            if verdict == Verdict::ValueMismatch {
                verdict = Verdict::Ok;
            }
        }
        if opts.skip_mask && verdict == Verdict::NullMismatch {
            verdict = Verdict::OkUnconstrained;
        }
        let phase = if i + 1 < w { "warmup" } else { "steady" };
        match verdict {
            Verdict::Ok => {
                if matches!(e, Expect::Null | Expect::NullTag(_)) {
                    ctx.count(&format!("null.{fname}"));
                } else if matches!(e, Expect::OneOf(a) if matches!(a.as_slice(), [Expect::Null, Expect::Approx { v, .. }] if *v == 0.0)) {
                    // constant window under a guaranteed EPS floor: only the attainable range is judged
                    ctx.count(&format!("constant_window_in_range.{fname}"));
                } else {
                    compared += 1;
                    ctx.count(&format!("value.{fname}"));
                    if let (true, Some(r)) = (matches!(U::KIND, OutKind::F64 | OutKind::OptF64), e.ratio(o)) {
                        ctx.maximum(&format!("err_over_bound.{fname}"), r, || {
                            format!("len={} w={} i={}", ci.x.len(), w, i)
                        });
                    }
                }
            },
            Verdict::OkUnconstrained => {
                let why = match e {
                    Expect::Any(r) | Expect::NonNull(r) => *r,
                    _ => "alternative",
                };
                ctx.count(&format!("unconstrained.{fname}"));
                ctx.count(&format!("unconstrained_reason.{why}"));
            },
            Verdict::NullMismatch => {
                let kind = if o.null { "unexpected_null" } else { "missing_null" };
                let intk = matches!(U::KIND, OutKind::I32 | OutKind::I64);
                let tag = match e {
                    Expect::NullTag(t) => *t,
                    _ => phase,
                };
                ctx.violation(&format!("{fname}/{kind}/{tag}{}", if intk { "/int" } else { "" }), || {
                    format!(
                        "position {i}: observed {} expected {}; call: {}",
                        fmt_obs(o),
                        e.describe(),
                        ci.describe()
                    )
                });
            },
            Verdict::ValueMismatch => {
                ctx.violation(&format!("{fname}/value/{phase}"), || {
                    format!(
                        "position {i}: observed {} expected {}; call: {}",
                        fmt_obs(o),
                        e.describe(),
                        ci.describe()
                    )
                });
            },
        }
    }
    if compared > 0 {
        ctx.sample(|| {
            let outs: Vec<String> = out.iter().take(12).map(|u| fmt_obs(u.obs())).collect();
            format!("{} -> [{}{}] ({} positions value-compared with the from-scratch model)", ci.describe(), outs.join(","), if out.len() > 12 { ",..." } else { "" }, compared)
        });
        let lenb = match ci.x.len() {
            0..=16 => ci.x.len(),
            17..=64 => 17,
            65..=1024 => 18,
            _ => 19,
        };
        let key = format!("{fname}|{}|{}|{}|{:?}|{:?}|{}", ci.label, lenb, w.min(40), ci.mp.map(|m| m.min(40)), ci.path, ci.class);
        ctx.distinct_hash(hash_str(&key));
    }
    compared
}
