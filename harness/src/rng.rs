//! Small deterministic PRNG (xoshiro256** seeded through splitmix64). No external crates.

#[derive(Clone, Debug)]
pub struct Rng {
    s: [u64; 4],
}

#[inline]
fn splitmix(x: &mut u64) -> u64 {
    *x = x.wrapping_add(0x9E37_79B9_7F4A_7C15);
    let mut z = *x;
    z = (z ^ (z >> 30)).wrapping_mul(0xBF58_476D_1CE4_E5B9);
    z = (z ^ (z >> 27)).wrapping_mul(0x94D0_49BB_1331_11EB);
    z ^ (z >> 31)
}

/// FNV-1a, used to derive independent streams from (seed, property, shard, purpose).
pub fn hash_str(s: &str) -> u64 {
    let mut h: u64 = 0xcbf2_9ce4_8422_2325;
    for b in s.bytes() {
        h ^= b as u64;
        h = h.wrapping_mul(0x0000_0100_0000_01B3);
    }
    h
}

impl Rng {
    pub fn new(seed: u64) -> Self {
        let mut x = seed;
        let s = [
            splitmix(&mut x),
            splitmix(&mut x),
            splitmix(&mut x),
            splitmix(&mut x),
        ];
        Rng { s }
    }

    /// Independent stream for (seed, tag, a, b).
    pub fn stream(seed: u64, tag: &str, a: u64, b: u64) -> Self {
        let mut x = seed ^ hash_str(tag).rotate_left(17) ^ a.wrapping_mul(0xA24B_AED4_963E_E407)
            ^ b.wrapping_mul(0x9FB2_1C65_1E98_DF25);
        let _ = splitmix(&mut x);
        Rng::new(x)
    }

    #[inline]
    pub fn next_u64(&mut self) -> u64 {
        let result = self.s[1].wrapping_mul(5).rotate_left(7).wrapping_mul(9);
        let t = self.s[1] << 17;
        self.s[2] ^= self.s[0];
        self.s[3] ^= self.s[1];
        self.s[1] ^= self.s[2];
        self.s[0] ^= self.s[3];
        self.s[2] ^= t;
        self.s[3] = self.s[3].rotate_left(45);
        result
    }

    /// uniform in 0..n (n > 0)
    #[inline]
    pub fn below(&mut self, n: usize) -> usize {
        debug_assert!(n > 0);
        ((self.next_u64() >> 11) % (n as u64)) as usize
    }

    /// uniform integer in lo..=hi
    #[inline]
    pub fn range_i64(&mut self, lo: i64, hi: i64) -> i64 {
        debug_assert!(lo <= hi);
        let span = (hi as i128 - lo as i128 + 1) as u128;
        let r = (self.next_u64() as u128) % span;
        (lo as i128 + r as i128) as i64
    }

    #[inline]
    pub fn range_usize(&mut self, lo: usize, hi: usize) -> usize {
        lo + self.below(hi - lo + 1)
    }

    /// uniform in [0,1)
    #[inline]
    pub fn unit(&mut self) -> f64 {
        (self.next_u64() >> 11) as f64 * (1.0 / (1u64 << 53) as f64)
    }

    #[inline]
    pub fn uniform(&mut self, lo: f64, hi: f64) -> f64 {
        lo + (hi - lo) * self.unit()
    }

    #[inline]
    pub fn chance(&mut self, p: f64) -> bool {
        self.unit() < p
    }

    #[inline]
    pub fn pick<'a, T>(&mut self, xs: &'a [T]) -> &'a T {
        &xs[self.below(xs.len())]
    }

    /// approximately standard normal (sum of 12 uniforms - 6)
    pub fn normal(&mut self) -> f64 {
        let mut s = 0.0;
        for _ in 0..12 {
            s += self.unit();
        }
        s - 6.0
    }

    pub fn shuffle<T>(&mut self, xs: &mut [T]) {
        for i in (1..xs.len()).rev() {
            let j = self.below(i + 1);
            xs.swap(i, j);
        }
    }
}
