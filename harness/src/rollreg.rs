//! Registry of tevec's rolling entry points: uniform generic callers (real code, any input
//! backend / element type / output container / output path) and the reference expectation
//! for every output position.

use tevec::prelude::*;

use crate::wl::Series;
use crate::model::*;

#[derive(Clone, Copy, Debug, PartialEq)]
pub enum Rf {
    // plain family (no notion of null)
    Sum,
    Mean,
    Ewm,
    Wma,
    Std,
    Var,
    Skew,
    Kurt,
    // null-aware moments
    VSum,
    VMean,
    VEwm,
    VWma,
    VStd,
    VVar,
    VSkew,
    VKurt,
    // extrema family
    VMin,
    VMax,
    VArgMin,
    VArgMax,
    /// (pct, rev)
    VRank(bool, bool),
    VMinMaxNorm,
    VZscore,
    // time-trend family
    VReg,
    VTsf,
    VRegSlope,
    VRegIntercept,
    VRegResidMean,
    // two-series
    VCov,
    VCorr,
    RegxAlpha,
    RegxBeta,
    RegxResidMean,
    RegxResidStd,
    RegxResidSkew,
    /// component 0 = alpha, 1 = beta, 2 = sse of ts_vregx_all
    RegxAll(u8),
    /// fractional differencing (feature fdiff)
    Fdiff(f64),
    VFdiff(f64),
}

pub const PLAIN_FNS: [Rf; 8] = [Rf::Sum, Rf::Mean, Rf::Ewm, Rf::Wma, Rf::Std, Rf::Var, Rf::Skew, Rf::Kurt];
pub const VMOMENT_FNS: [Rf; 8] =
    [Rf::VSum, Rf::VMean, Rf::VEwm, Rf::VWma, Rf::VStd, Rf::VVar, Rf::VSkew, Rf::VKurt];
pub const CMP_FNS: [Rf; 10] = [
    Rf::VMin,
    Rf::VMax,
    Rf::VArgMin,
    Rf::VArgMax,
    Rf::VRank(false, false),
    Rf::VRank(true, false),
    Rf::VRank(false, true),
    Rf::VRank(true, true),
    Rf::VMinMaxNorm,
    Rf::VZscore,
];
pub const TREND_FNS: [Rf; 5] = [Rf::VReg, Rf::VTsf, Rf::VRegSlope, Rf::VRegIntercept, Rf::VRegResidMean];
pub const PAIR_FNS: [Rf; 10] = [
    Rf::VCov,
    Rf::VCorr,
    Rf::RegxAlpha,
    Rf::RegxBeta,
    Rf::RegxResidMean,
    Rf::RegxResidStd,
    Rf::RegxResidSkew,
    Rf::RegxAll(0),
    Rf::RegxAll(1),
    Rf::RegxAll(2),
];

/// all null-aware single-series entry points
pub fn valid1_fns() -> Vec<Rf> {
    let mut v = VMOMENT_FNS.to_vec();
    v.extend_from_slice(&CMP_FNS);
    v.extend_from_slice(&TREND_FNS);
    v
}

impl Rf {
    pub fn name(self) -> String {
        match self {
            Rf::Sum => "ts_sum".into(),
            Rf::Mean => "ts_mean".into(),
            Rf::Ewm => "ts_ewm".into(),
            Rf::Wma => "ts_wma".into(),
            Rf::Std => "ts_std".into(),
            Rf::Var => "ts_var".into(),
            Rf::Skew => "ts_skew".into(),
            Rf::Kurt => "ts_kurt".into(),
            Rf::VSum => "ts_vsum".into(),
            Rf::VMean => "ts_vmean".into(),
            Rf::VEwm => "ts_vewm".into(),
            Rf::VWma => "ts_vwma".into(),
            Rf::VStd => "ts_vstd".into(),
            Rf::VVar => "ts_vvar".into(),
            Rf::VSkew => "ts_vskew".into(),
            Rf::VKurt => "ts_vkurt".into(),
            Rf::VMin => "ts_vmin".into(),
            Rf::VMax => "ts_vmax".into(),
            Rf::VArgMin => "ts_vargmin".into(),
            Rf::VArgMax => "ts_vargmax".into(),
            Rf::VRank(p, r) => format!("ts_vrank[pct={},rev={}]", p as u8, r as u8),
            Rf::VMinMaxNorm => "ts_vminmaxnorm".into(),
            Rf::VZscore => "ts_vzscore".into(),
            Rf::VReg => "ts_vreg".into(),
            Rf::VTsf => "ts_vtsf".into(),
            Rf::VRegSlope => "ts_vreg_slope".into(),
            Rf::VRegIntercept => "ts_vreg_intercept".into(),
            Rf::VRegResidMean => "ts_vreg_resid_mean".into(),
            Rf::VCov => "ts_vcov".into(),
            Rf::VCorr => "ts_vcorr".into(),
            Rf::RegxAlpha => "ts_vregx_alpha".into(),
            Rf::RegxBeta => "ts_vregx_beta".into(),
            Rf::RegxResidMean => "ts_vregx_resid_mean".into(),
            Rf::RegxResidStd => "ts_vregx_resid_std".into(),
            Rf::RegxResidSkew => "ts_vregx_resid_skew".into(),
            Rf::RegxAll(k) => format!("ts_vregx_all.{k}"),
            Rf::Fdiff(_) => "ts_fdiff".into(),
            Rf::VFdiff(_) => "ts_vfdiff".into(),
        }
    }

    pub fn is_plain(self) -> bool {
        matches!(
            self,
            Rf::Sum | Rf::Mean | Rf::Ewm | Rf::Wma | Rf::Std | Rf::Var | Rf::Skew | Rf::Kurt | Rf::Fdiff(_)
        )
    }

    pub fn is_pair(self) -> bool {
        matches!(
            self,
            Rf::VCov
                | Rf::VCorr
                | Rf::RegxAlpha
                | Rf::RegxBeta
                | Rf::RegxResidMean
                | Rf::RegxResidStd
                | Rf::RegxResidSkew
                | Rf::RegxAll(_)
        )
    }

    /// extrema/rank family: clamps the window to the series length before deriving the
    /// default min_periods and does not clamp min_periods (DESIGN §5.3)
    pub fn is_cmp_family(self) -> bool {
        matches!(self, Rf::VMin | Rf::VMax | Rf::VArgMin | Rf::VArgMax | Rf::VRank(_, _))
    }

    /// results that must be exact (no tolerance)
    pub fn is_exact_result(self) -> bool {
        self.is_cmp_family()
    }

    pub fn has_buf_path(self) -> bool {
        !matches!(self, Rf::RegxAll(_))
    }
}

#[derive(Clone, Copy, Debug, PartialEq, Eq, Hash)]
pub enum Path {
    /// result returned (internally allocated)
    Ret,
    /// result written into a caller supplied uninitialised buffer (`*_to`)
    Buf,
}

// ---------------------------------------------------------------------------------------
// output element decoding
// ---------------------------------------------------------------------------------------

#[derive(Clone, Copy, Debug, PartialEq, Eq, Hash)]
pub enum OutKind {
    F64,
    F32,
    OptF64,
    OptF32,
    I32,
    OptI32,
    I64,
}

pub trait OutElem: Clone + std::fmt::Debug + 'static {
    const KIND: OutKind;
    fn obs(&self) -> Obs;
    /// the 0xA5.. bit pattern left by hook H2 in a slot that was never written
    fn is_poison(&self) -> bool;
}

impl OutElem for f64 {
    const KIND: OutKind = OutKind::F64;
    fn obs(&self) -> Obs {
        if self.is_nan() { Obs::null() } else { Obs::val(*self) }
    }
    fn is_poison(&self) -> bool {
        self.to_bits() == 0xA5A5_A5A5_A5A5_A5A5
    }
}
impl OutElem for f32 {
    const KIND: OutKind = OutKind::F32;
    fn obs(&self) -> Obs {
        if self.is_nan() { Obs::null() } else { Obs::val(*self as f64) }
    }
    fn is_poison(&self) -> bool {
        self.to_bits() == 0xA5A5_A5A5
    }
}
impl OutElem for Option<f64> {
    const KIND: OutKind = OutKind::OptF64;
    fn obs(&self) -> Obs {
        match self {
            None => Obs::null(),
            Some(v) => Obs::val(*v),
        }
    }
    fn is_poison(&self) -> bool {
        false
    }
}
impl OutElem for Option<f32> {
    const KIND: OutKind = OutKind::OptF32;
    fn obs(&self) -> Obs {
        match self {
            None => Obs::null(),
            Some(v) => Obs::val(*v as f64),
        }
    }
    fn is_poison(&self) -> bool {
        false
    }
}
impl OutElem for i32 {
    const KIND: OutKind = OutKind::I32;
    fn obs(&self) -> Obs {
        Obs::val(*self as f64)
    }
    fn is_poison(&self) -> bool {
        *self as u32 == 0xA5A5_A5A5
    }
}
impl OutElem for i64 {
    const KIND: OutKind = OutKind::I64;
    fn obs(&self) -> Obs {
        Obs::val(*self as f64)
    }
    fn is_poison(&self) -> bool {
        *self as u64 == 0xA5A5_A5A5_A5A5_A5A5
    }
}
impl OutElem for Option<i32> {
    const KIND: OutKind = OutKind::OptI32;
    fn obs(&self) -> Obs {
        match self {
            None => Obs::null(),
            Some(v) => Obs::val(*v as f64),
        }
    }
    fn is_poison(&self) -> bool {
        false
    }
}

pub fn to_obs<U: OutElem>(v: &[U]) -> Vec<Obs> {
    v.iter().map(|x| x.obs()).collect()
}

/// Compare an observation of output kind `kind` with an expectation that was computed for
/// an f64 result. Integer kinds follow DESIGN §5.8.
pub fn check_obs(e: &Expect, o: Obs, kind: OutKind) -> Verdict {
    match kind {
        OutKind::F64 | OutKind::OptF64 => e.check(o, 0.0),
        OutKind::F32 | OutKind::OptF32 => {
            // library computes in f64 and casts: accept one f32 rounding on top of the bound
            match e {
                Expect::Exact(v) => {
                    if o.null {
                        Verdict::NullMismatch
                    } else if (*v as f32) as f64 == o.v {
                        Verdict::Ok
                    } else {
                        Verdict::ValueMismatch
                    }
                },
                Expect::OneOf(alts) => {
                    let mut res = Verdict::NullMismatch;
                    for a in alts {
                        match check_obs(a, o, kind) {
                            Verdict::Ok => return Verdict::Ok,
                            Verdict::OkUnconstrained => return Verdict::OkUnconstrained,
                            Verdict::ValueMismatch => res = Verdict::ValueMismatch,
                            Verdict::NullMismatch => {},
                        }
                    }
                    res
                },
                _ => e.check(o, 2.0 * F32_EPS),
            }
        },
        OutKind::I32 | OutKind::OptI32 | OutKind::I64 => check_int(e, o, kind),
    }
}

fn check_int(e: &Expect, o: Obs, kind: OutKind) -> Verdict {
    let plain = matches!(kind, OutKind::I32 | OutKind::I64);
    let cast = |v: f64| -> f64 {
        if kind == OutKind::I64 { (v as i64) as f64 } else { (v as i32) as f64 }
    };
    match e {
        Expect::Null | Expect::NullTag(_) => {
            if plain {
                // NaN as i32 == 0
                if o.v == 0.0 { Verdict::Ok } else { Verdict::NullMismatch }
            } else if o.null {
                Verdict::Ok
            } else {
                Verdict::NullMismatch
            }
        },
        Expect::Exact(v) => {
            if !plain && o.null {
                return Verdict::NullMismatch;
            }
            if o.v == cast(*v) { Verdict::Ok } else { Verdict::ValueMismatch }
        },
        Expect::Approx { v, hw } => {
            if !plain && o.null {
                return Verdict::NullMismatch;
            }
            // truncation toward zero of anything in [v-hw, v+hw]
            let (lo, hi) = (cast(v - hw), cast(v + hw));
            if o.v >= lo.min(hi) && o.v <= lo.max(hi) { Verdict::Ok } else { Verdict::ValueMismatch }
        },
        Expect::OneOf(alts) => {
            let mut res = Verdict::NullMismatch;
            for a in alts {
                match check_int(a, o, kind) {
                    Verdict::Ok => return Verdict::Ok,
                    Verdict::OkUnconstrained => return Verdict::OkUnconstrained,
                    Verdict::ValueMismatch => res = Verdict::ValueMismatch,
                    Verdict::NullMismatch => {},
                }
            }
            res
        },
        Expect::Any(_) => Verdict::OkUnconstrained,
        Expect::NonNull(_) => {
            if !plain && o.null { Verdict::NullMismatch } else { Verdict::OkUnconstrained }
        },
    }
}

// ---------------------------------------------------------------------------------------
// generic callers (the real library code runs here)
// ---------------------------------------------------------------------------------------

thread_local! {
    /// > 0: a caller-supplied `VecDeque` buffer gets its head rotated by this many slots before the call
    /// (the ring buffer made by `uninit(len)` is full, so rotating moves the head: physically wrapped)
    pub static BUF_ROT: std::cell::Cell<usize> = const { std::cell::Cell::new(0) };
}

/// rotate the head of a caller-supplied ring buffer (no-op for every other buffer type)
pub fn rotate_ring_buffer<B>(b: &mut B) {
    use std::any::type_name;
    use std::collections::VecDeque;
    use std::mem::MaybeUninit;
    let rot = BUF_ROT.with(|r| r.get());
    if rot == 0 {
        return;
    }
    macro_rules! try_ty {
        ($t:ty) => {
            if type_name::<B>() == type_name::<VecDeque<MaybeUninit<$t>>>() {
                // same type (checked by name: `Any` would force 'static bounds through every generic caller)
                let d: &mut VecDeque<MaybeUninit<$t>> = unsafe { &mut *(b as *mut B as *mut VecDeque<MaybeUninit<$t>>) };
                if d.len() > 1 {
                    let k = rot % d.len();
                    d.rotate_left(k);
                }
                return;
            }
        };
    }
    try_ty!(f64);
    try_ty!(f32);
    try_ty!(i32);
    try_ty!(Option<f64>);
    try_ty!(Option<i32>);
}

macro_rules! disp {
    ($v:expr, $path:expr, $O:ty, $U:ty, $m:ident, $mto:ident, ($($arg:expr),*)) => {
        match $path {
            Path::Ret => $v.$m::<$O, $U>($($arg),*),
            Path::Buf => {
                let mut b = <$O as Vec1<$U>>::uninit($v.len());
                rotate_ring_buffer(&mut b);
                let r = $v.$mto::<$O, $U>($($arg,)* Some(<$O as Vec1<$U>>::uninit_ref_mut(&mut b)));
                assert!(r.is_none(), "out-buffer path must return None");
                unsafe { b.assume_init() }
            },
        }
    };
}

macro_rules! disp2 {
    ($v:expr, $path:expr, $O:ty, $U:ty, $m:ident, $mto:ident, ($($arg:expr),*)) => {
        match $path {
            Path::Ret => $v.$m::<$O, $U, _, _>($($arg),*),
            Path::Buf => {
                let mut b = <$O as Vec1<$U>>::uninit($v.len());
                rotate_ring_buffer(&mut b);
                let r = $v.$mto::<$O, $U, _, _>($($arg,)* Some(<$O as Vec1<$U>>::uninit_ref_mut(&mut b)));
                assert!(r.is_none(), "out-buffer path must return None");
                unsafe { b.assume_init() }
            },
        }
    };
}

/// null-aware single-series entry points
pub fn call_valid1<V, T, O, U>(rf: Rf, v: &V, w: usize, mp: Option<usize>, path: Path) -> O
where
    V: Vec1View<T>,
    T: IsNone,
    T::Inner: Number,
    O: Vec1<U>,
    U: Clone,
    f64: Cast<U>,
    Option<T::Inner>: Cast<U>,
{
    match rf {
        Rf::VSum => disp!(v, path, O, U, ts_vsum, ts_vsum_to, (w, mp)),
        Rf::VMean => disp!(v, path, O, U, ts_vmean, ts_vmean_to, (w, mp)),
        Rf::VEwm => disp!(v, path, O, U, ts_vewm, ts_vewm_to, (w, mp)),
        Rf::VWma => disp!(v, path, O, U, ts_vwma, ts_vwma_to, (w, mp)),
        Rf::VStd => disp!(v, path, O, U, ts_vstd, ts_vstd_to, (w, mp)),
        Rf::VVar => disp!(v, path, O, U, ts_vvar, ts_vvar_to, (w, mp)),
        Rf::VSkew => disp!(v, path, O, U, ts_vskew, ts_vskew_to, (w, mp)),
        Rf::VKurt => disp!(v, path, O, U, ts_vkurt, ts_vkurt_to, (w, mp)),
        Rf::VMin => disp!(v, path, O, U, ts_vmin, ts_vmin_to, (w, mp)),
        Rf::VMax => disp!(v, path, O, U, ts_vmax, ts_vmax_to, (w, mp)),
        Rf::VArgMin => disp!(v, path, O, U, ts_vargmin, ts_vargmin_to, (w, mp)),
        Rf::VArgMax => disp!(v, path, O, U, ts_vargmax, ts_vargmax_to, (w, mp)),
        Rf::VRank(p, r) => disp!(v, path, O, U, ts_vrank, ts_vrank_to, (w, mp, p, r)),
        Rf::VMinMaxNorm => disp!(v, path, O, U, ts_vminmaxnorm, ts_vminmaxnorm_to, (w, mp)),
        Rf::VZscore => disp!(v, path, O, U, ts_vzscore, ts_vzscore_to, (w, mp)),
        Rf::VReg => disp!(v, path, O, U, ts_vreg, ts_vreg_to, (w, mp)),
        Rf::VTsf => disp!(v, path, O, U, ts_vtsf, ts_vtsf_to, (w, mp)),
        Rf::VRegSlope => disp!(v, path, O, U, ts_vreg_slope, ts_vreg_slope_to, (w, mp)),
        Rf::VRegIntercept => disp!(v, path, O, U, ts_vreg_intercept, ts_vreg_intercept_to, (w, mp)),
        Rf::VRegResidMean => disp!(v, path, O, U, ts_vreg_resid_mean, ts_vreg_resid_mean_to, (w, mp)),
        other => panic!("call_valid1: {other:?} is not a null-aware single-series function"),
    }
}

/// plain single-series entry points (element type must be a plain number)
pub fn call_plain1<V, T, O, U>(rf: Rf, v: &V, w: usize, mp: Option<usize>, path: Path) -> O
where
    V: Vec1View<T>,
    T: Number,
    O: Vec1<U>,
    U: Clone,
    f64: Cast<U>,
{
    match rf {
        Rf::Sum => disp!(v, path, O, U, ts_sum, ts_sum_to, (w, mp)),
        Rf::Mean => disp!(v, path, O, U, ts_mean, ts_mean_to, (w, mp)),
        Rf::Ewm => disp!(v, path, O, U, ts_ewm, ts_ewm_to, (w, mp)),
        Rf::Wma => disp!(v, path, O, U, ts_wma, ts_wma_to, (w, mp)),
        Rf::Std => disp!(v, path, O, U, ts_std, ts_std_to, (w, mp)),
        Rf::Var => disp!(v, path, O, U, ts_var, ts_var_to, (w, mp)),
        Rf::Skew => disp!(v, path, O, U, ts_skew, ts_skew_to, (w, mp)),
        Rf::Kurt => disp!(v, path, O, U, ts_kurt, ts_kurt_to, (w, mp)),
        other => panic!("call_plain1: {other:?} is not a plain function"),
    }
}

/// two-series entry points (first series = self = regressand)
pub fn call_valid2<V, T, V2, T2, O, U>(rf: Rf, v: &V, v2: &V2, w: usize, mp: Option<usize>, path: Path) -> O
where
    V: Vec1View<T>,
    T: IsNone,
    T::Inner: Number,
    V2: Vec1View<T2>,
    T2: IsNone,
    T2::Inner: Number,
    O: Vec1<U>,
    U: Clone,
    f64: Cast<U>,
{
    match rf {
        Rf::VCov => disp2!(v, path, O, U, ts_vcov, ts_vcov_to, (v2, w, mp)),
        Rf::VCorr => disp2!(v, path, O, U, ts_vcorr, ts_vcorr_to, (v2, w, mp)),
        Rf::RegxAlpha => disp2!(v, path, O, U, ts_vregx_alpha, ts_vregx_alpha_to, (v2, w, mp)),
        Rf::RegxBeta => disp2!(v, path, O, U, ts_vregx_beta, ts_vregx_beta_to, (v2, w, mp)),
        Rf::RegxResidMean => disp2!(v, path, O, U, ts_vregx_resid_mean, ts_vregx_resid_mean_to, (v2, w, mp)),
        Rf::RegxResidStd => disp2!(v, path, O, U, ts_vregx_resid_std, ts_vregx_resid_std_to, (v2, w, mp)),
        Rf::RegxResidSkew => disp2!(v, path, O, U, ts_vregx_resid_skew, ts_vregx_resid_skew_to, (v2, w, mp)),
        Rf::RegxAll(k) => {
            let t: Vec<(U, U, U)> = v.ts_vregx_all(v2, w, mp);
            O::collect_from_iter(t.into_iter().map(move |t| match k {
                0 => t.0,
                1 => t.1,
                _ => t.2,
            }))
        },
        other => panic!("call_valid2: {other:?} is not a two-series function"),
    }
}

#[cfg(feature = "fdiff")]
pub fn call_fdiff<V, T, O, U>(rf: Rf, v: &V, w: usize, mp: Option<usize>, path: Path) -> O
where
    V: Vec1View<T>,
    T: IsNone + Cast<f64>,
    T::Inner: Number,
    for<'a> V::SliceOutput<'a>: TIter<T>,
    O: Vec1<U>,
    U: Clone,
    f64: Cast<U>,
{
    match rf {
        Rf::Fdiff(d) => disp!(v, path, O, U, ts_fdiff, ts_fdiff_to, (d, w)),
        Rf::VFdiff(d) => disp!(v, path, O, U, ts_vfdiff, ts_vfdiff_to, (d, w, mp)),
        other => panic!("call_fdiff: {other:?}"),
    }
}

// ---------------------------------------------------------------------------------------
// reference expectation for every output position
// ---------------------------------------------------------------------------------------

#[derive(Clone, Copy, Debug)]
pub struct ExCtx {
    /// every value is on the exact grid (multiples of 1/8, |v| <= 64) and w <= 4096
    pub exact: bool,
    /// unit roundoff of element-typed accumulators (ts_sum / ts_vsum): f32 → 2^-24
    pub elem_eps: f64,
}

impl ExCtx {
    pub fn for_series(x: &[Option<f64>], y: Option<&[Option<f64>]>, w: usize, elem_f32: bool) -> ExCtx {
        let exact = w <= 4096
            && crate::wl::is_exact_grid(x)
            && y.map(crate::wl::is_exact_grid).unwrap_or(true);
        ExCtx { exact, elem_eps: if elem_f32 { F32_EPS } else { F64_EPS } }
    }
}

/// effective min_periods of the moment / trend / pair / norm families
pub fn mp_eff(w: usize, mp: Option<usize>) -> usize {
    mp.unwrap_or(w / 2).min(w)
}

/// Expected output of `rf` at every position. `x` is the (first) series, `y` the second one
/// for two-series functions. Nulls are `None`. For the plain family `x` must be null-free.
pub fn expect_roll(rf: Rf, x: &Series, y: Option<&Series>, w: usize, mp: Option<usize>, cx: ExCtx) -> Vec<Expect> {
    let len = x.len();
    assert!(w >= 1);
    let mut out = Vec::with_capacity(len);
    let mpe = mp_eff(w, mp);
    let wc = w.min(len); // clamped window of the extrema family
    let mp_cmp = mp.unwrap_or(wc / 2);
    let mut hist_max_x = 0.0f64;
    let mut hist_max_y = 0.0f64;
    for i in 0..len {
        let start = (i + 1).saturating_sub(w);
        if let Some(v) = x[i] {
            hist_max_x = hist_max_x.max(v.abs());
        }
        if let Some(yy) = y {
            if let Some(v) = yy[i] {
                hist_max_y = hist_max_y.max(v.abs());
            }
        }
        let e = ErrCtx {
            exact: cx.exact,
            ops: 2.0 * (i as f64 + 1.0),
            hist_maxabs: hist_max_x,
            w: w.min(i + 1) as f64,
            eps: F64_EPS,
        };
        let exp = if rf.is_pair() {
            let yy = y.expect("second series");
            // self = regressand (first), other = regressor (second)
            let mut a = Vec::new();
            let mut b = Vec::new();
            for j in start..=i {
                if let (Some(p), Some(q)) = (x[j], yy[j]) {
                    a.push(p);
                    b.push(q);
                }
            }
            let n = a.len();
            if n < mpe {
                Expect::Null
            } else {
                let which = match rf {
                    Rf::VCov => Pair::Cov,
                    Rf::VCorr => Pair::Corr,
                    Rf::RegxAlpha | Rf::RegxAll(0) => Pair::Alpha,
                    Rf::RegxBeta | Rf::RegxAll(1) => Pair::Beta,
                    Rf::RegxResidMean => Pair::ResidMean,
                    Rf::RegxResidStd => Pair::ResidStd,
                    Rf::RegxResidSkew => Pair::ResidSkew,
                    Rf::RegxAll(_) => Pair::Sse,
                    _ => unreachable!(),
                };
                pair_expect(which, &a, &b, &e, (hist_max_x, hist_max_y))
            }
        } else {
            let vals: Vec<f64> = x[start..=i].iter().filter_map(|v| *v).collect();
            let n = vals.len();
            match rf {
                Rf::Sum | Rf::VSum => {
                    if n < mpe {
                        Expect::Null
                    } else {
                        let es = ErrCtx { eps: cx.elem_eps, ..e };
                        moment_expect(Moment::Sum, &vals, &es)
                    }
                },
                Rf::Mean | Rf::VMean => {
                    if n < mpe { Expect::Null } else { moment_expect(Moment::Mean, &vals, &e) }
                },
                Rf::Ewm | Rf::VEwm => {
                    if n < mpe { Expect::Null } else { ewm_expect(&vals, w, hist_max_x) }
                },
                Rf::Wma | Rf::VWma => {
                    if n < mpe { Expect::Null } else { wma_expect(&vals, &e) }
                },
                Rf::Std | Rf::VStd => {
                    if n < mpe.max(2) { Expect::Null } else { moment_expect(Moment::Std, &vals, &e) }
                },
                Rf::Var | Rf::VVar => {
                    if n < mpe.max(2) { Expect::Null } else { moment_expect(Moment::Var, &vals, &e) }
                },
                Rf::Skew | Rf::VSkew => {
                    if n < mpe.max(3) { Expect::Null } else { moment_expect(Moment::Skew, &vals, &e) }
                },
                Rf::Kurt | Rf::VKurt => {
                    if n < mpe.max(4) { Expect::Null } else { moment_expect(Moment::Kurt, &vals, &e) }
                },
                Rf::VReg | Rf::VTsf | Rf::VRegSlope | Rf::VRegIntercept | Rf::VRegResidMean => {
                    if n < mpe {
                        Expect::Null
                    } else {
                        let t = match rf {
                            Rf::VReg => Trend::Fit,
                            Rf::VTsf => Trend::Forecast,
                            Rf::VRegSlope => Trend::Slope,
                            Rf::VRegIntercept => Trend::Intercept,
                            _ => Trend::ResidMean,
                        };
                        trend_expect(t, &vals, &e)
                    }
                },
                Rf::VZscore => match x[i] {
                    None => Expect::Null,
                    Some(_) if n < mpe => Expect::Null,
                    Some(cur) => zscore_expect(cur, &vals, &e),
                },
                Rf::VMinMaxNorm => match x[i] {
                    None => Expect::Null,
                    Some(_) if n < mpe => Expect::Null,
                    Some(cur) => {
                        let mn = vals.iter().cloned().fold(f64::INFINITY, f64::min);
                        let mx = vals.iter().cloned().fold(f64::NEG_INFINITY, f64::max);
                        if mx == mn {
                            Expect::Null
                        } else {
                            let v = (cur - mn) / (mx - mn);
                            Expect::Approx { v, hw: 4.0 * F64_EPS * v.abs() }
                        }
                    },
                },
                Rf::VMin | Rf::VMax | Rf::VArgMin | Rf::VArgMax | Rf::VRank(_, _) => {
                    // the family clamps the window to the series length
                    let start = (i + 1).saturating_sub(wc.max(1));
                    let vals: Vec<f64> = x[start..=i].iter().filter_map(|v| *v).collect();
                    let n = vals.len();
                    cmp_expect(rf, x, start, i, &vals, n, mp_cmp)
                },
                Rf::Fdiff(d) => {
                    // plain: every element of the (possibly shorter) window, k-th most recent ↔ weight k
                    let win: Vec<f64> = x[start..=i].iter().map(|v| v.expect("plain family: no nulls")).collect();
                    fdiff_expect(d, &win)
                },
                Rf::VFdiff(d) => {
                    if n < mpe {
                        Expect::Null
                    } else if n == 0 {
                        Expect::Any("fractional difference of an empty window")
                    } else {
                        fdiff_expect(d, &vals)
                    }
                },
                _ => unreachable!(),
            }
        };
        out.push(exp);
    }
    out
}

fn fdiff_expect(d: f64, vals_oldest_first: &[f64]) -> Expect {
    let n = vals_oldest_first.len();
    let wts = fdiff_weights(d, n);
    let terms: Vec<f64> = (0..n).map(|k| wts[k] * vals_oldest_first[n - 1 - k]).collect();
    let v = csum(terms.iter().copied());
    let a = csum(terms.iter().map(|t| t.abs()));
    // weights come from a gamma-function based binomial in the library: relative 1e-10 slack
    approx_or_ill(v, 1e-10 * a + 16.0 * (n as f64) * F64_EPS * a)
}

fn zscore_expect(cur: f64, vals: &[f64], e: &ErrCtx) -> Expect {
    let n = vals.len();
    let nf = n as f64;
    let (fl, vp, _) = var_floor(vals, e);
    if n < 2 {
        return Expect::Null;
    }
    if vp <= 0.0 {
        // zero spread: null is fixed by the property. On inexact data the one-pass variance is
        // zero only up to its rounding residue (known finding when that residue exceeds EPS).
        return if e.exact { Expect::NullTag("zero-spread") } else { Expect::NullTag("zero-spread-inexact-sums") };
    }
    match fl {
        Floor::Below => return Expect::OneOf(vec![Expect::Null, Expect::NonNull("variance below the EPS floor")]),
        Floor::Zone => return Expect::Any("variance in the EPS floor zone"),
        Floor::Above => {},
    }
    let m = mean(vals);
    let sd = var_sample(vals).unwrap().sqrt();
    let c = (cur - m) / sd;
    let s1 = csum(vals.iter().copied());
    let s2 = csum(vals.iter().map(|x| x * x));
    let a1 = csum(vals.iter().map(|x| x.abs()));
    let mx = e.hist_maxabs.max(maxabs(vals));
    let d = [e.delta(a1, mx), e.delta(s2, mx * mx)];
    let g = |s: &[f64; 2]| {
        let mean = s[0] / nf;
        let var = s[1] / nf - mean * mean;
        (cur - mean) / (var * nf / (nf - 1.0)).sqrt()
    };
    let (_, hw) = perturb(g, [s1, s2], d);
    approx_or_ill(c, hw + 8.0 * F64_EPS * (cur.abs() + m.abs()) / sd)
}

fn cmp_expect(rf: Rf, x: &Series, start: usize, i: usize, vals: &[f64], n: usize, mp: usize) -> Expect {
    if n < mp {
        return Expect::Null;
    }
    match rf {
        Rf::VMin => {
            if n == 0 {
                Expect::Null
            } else {
                Expect::Exact(vals.iter().cloned().fold(f64::INFINITY, f64::min))
            }
        },
        Rf::VMax => {
            if n == 0 {
                Expect::Null
            } else {
                Expect::Exact(vals.iter().cloned().fold(f64::NEG_INFINITY, f64::max))
            }
        },
        Rf::VArgMin | Rf::VArgMax => {
            if n == 0 {
                // no position holds an extreme
                return Expect::Null;
            }
            let ext = if rf == Rf::VArgMin {
                vals.iter().cloned().fold(f64::INFINITY, f64::min)
            } else {
                vals.iter().cloned().fold(f64::NEG_INFINITY, f64::max)
            };
            // most recent position holding the extreme
            let mut pos = None;
            for j in start..=i {
                if x[j] == Some(ext) {
                    pos = Some(j);
                }
            }
            Expect::Exact((pos.unwrap() - start + 1) as f64)
        },
        Rf::VRank(pct, rev) => match x[i] {
            None => Expect::Null,
            Some(cur) => {
                let asc = avg_rank(cur, vals);
                let r = if rev { (n + 1) as f64 - asc } else { asc };
                Expect::Exact(if pct { r / n as f64 } else { r })
            },
        },
        _ => unreachable!(),
    }
}

// ---------------------------------------------------------------------------------------
// convenience: any entry point on f64 vectors
// ---------------------------------------------------------------------------------------

/// Call any registered entry point on `Vec<f64>` input(s) (fast path), `Vec<f64>` output.
pub fn call_vec_f64(rf: Rf, x: &Vec<f64>, y: &Vec<f64>, w: usize, mp: Option<usize>, path: Path) -> Vec<f64> {
    call_generic_f64::<Vec<f64>, Vec<f64>>(rf, x, y, w, mp, path)
}

/// Call any registered entry point (except fdiff) on containers of f64.
pub fn call_generic_f64<V, O>(rf: Rf, x: &V, y: &V, w: usize, mp: Option<usize>, path: Path) -> O
where
    V: Vec1View<f64>,
    O: Vec1<f64>,
{
    if rf.is_pair() {
        call_valid2::<V, f64, V, f64, O, f64>(rf, x, y, w, mp, path)
    } else if matches!(rf, Rf::Fdiff(_) | Rf::VFdiff(_)) {
        panic!("fdiff needs call_fdiff")
    } else if rf.is_plain() {
        call_plain1::<V, f64, O, f64>(rf, x, w, mp, path)
    } else {
        call_valid1::<V, f64, O, f64>(rf, x, w, mp, path)
    }
}

/// every registered entry point except the fdiff pair
pub fn all_fns_no_fdiff() -> Vec<Rf> {
    let mut v = PLAIN_FNS.to_vec();
    v.extend(valid1_fns());
    v.extend_from_slice(&PAIR_FNS);
    v
}
