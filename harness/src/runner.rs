//! Execute one rolling call on the real library and judge it against the reference model.
#[allow(unused_imports)]
use tevec::prelude::{Cast, IsNone, Number, TIter, Vec1, Vec1View};

use crate::ctx::{Ctx, catch};
use crate::monitor::{CallInfo, JudgeOpts, judge};
use crate::rollreg::*;
use crate::wl::Series;

pub struct Call<'a> {
    pub rf: Rf,
    pub x: &'a Series,
    pub y: Option<&'a Series>,
    pub w: usize,
    pub mp: Option<usize>,
    pub path: Path,
    pub label: &'a str,
    pub class: &'a str,
    /// element-typed accumulators are f32 (ts_sum / ts_vsum on f32 input)
    pub f32acc: bool,
    pub opts: JudgeOpts,
}

impl<'a> Call<'a> {
    pub fn new(rf: Rf, x: &'a Series, w: usize, mp: Option<usize>, path: Path, label: &'a str, class: &'a str) -> Self {
        Call { rf, x, y: None, w, mp, path, label, class, f32acc: false, opts: JudgeOpts::default() }
    }
    pub fn with_y(mut self, y: &'a Series) -> Self {
        self.y = Some(y);
        self
    }
    pub fn f32acc(mut self, b: bool) -> Self {
        self.f32acc = b;
        self
    }
    pub fn opts(mut self, o: JudgeOpts) -> Self {
        self.opts = o;
        self
    }
    fn info(&self) -> CallInfo<'a> {
        CallInfo { rf: self.rf, label: self.label, w: self.w, mp: self.mp, path: self.path, x: self.x, y: self.y, class: self.class }
    }
    fn expect(&self) -> Vec<crate::model::Expect> {
        let cx = ExCtx::for_series(self.x, self.y.map(|v| &v[..]), self.w, self.f32acc);
        expect_roll(self.rf, self.x, self.y, self.w, self.mp, cx)
    }
}

pub fn run_valid1<V, T, O, U>(ctx: &mut Ctx, c: &Call, v: &V) -> usize
where
    V: Vec1View<T>,
    T: IsNone,
    T::Inner: Number,
    O: Vec1<U>,
    U: OutElem,
    f64: Cast<U>,
    Option<T::Inner>: Cast<U>,
{
    let exp = c.expect();
    let res = catch(|| {
        let o: O = call_valid1::<V, T, O, U>(c.rf, v, c.w, c.mp, c.path);
        o.titer().collect::<Vec<U>>()
    });
    judge(ctx, &c.info(), res, &exp, c.opts)
}

pub fn run_plain1<V, T, O, U>(ctx: &mut Ctx, c: &Call, v: &V) -> usize
where
    V: Vec1View<T>,
    T: Number,
    O: Vec1<U>,
    U: OutElem,
    f64: Cast<U>,
{
    let exp = c.expect();
    let res = catch(|| {
        let o: O = call_plain1::<V, T, O, U>(c.rf, v, c.w, c.mp, c.path);
        o.titer().collect::<Vec<U>>()
    });
    judge(ctx, &c.info(), res, &exp, c.opts)
}

pub fn run_valid2<V, T, V2, T2, O, U>(ctx: &mut Ctx, c: &Call, v: &V, v2: &V2) -> usize
where
    V: Vec1View<T>,
    T: IsNone,
    T::Inner: Number,
    V2: Vec1View<T2>,
    T2: IsNone,
    T2::Inner: Number,
    O: Vec1<U>,
    U: OutElem,
    f64: Cast<U>,
{
    let exp = c.expect();
    let res = catch(|| {
        let o: O = call_valid2::<V, T, V2, T2, O, U>(c.rf, v, v2, c.w, c.mp, c.path);
        o.titer().collect::<Vec<U>>()
    });
    judge(ctx, &c.info(), res, &exp, c.opts)
}

#[cfg(feature = "fdiff")]
pub fn run_fdiff<V, T, O, U>(ctx: &mut Ctx, c: &Call, v: &V) -> usize
where
    V: Vec1View<T>,
    T: IsNone + Cast<f64>,
    T::Inner: Number,
    for<'a> V::SliceOutput<'a>: TIter<T>,
    O: Vec1<U>,
    U: OutElem,
    f64: Cast<U>,
{
    let exp = c.expect();
    let res = catch(|| {
        let o: O = call_fdiff::<V, T, O, U>(c.rf, v, c.w, c.mp, c.path);
        o.titer().collect::<Vec<U>>()
    });
    judge(ctx, &c.info(), res, &exp, c.opts)
}

