//! Instrumented containers (100 % safe Rust) implementing tevec's public container traits.
//!
//! * `SpyVec<T>`     – input view; logs every `uget` / `uslice` / `titer`, bounds-checks them and
//!                     raises a *marked* unwinding panic (`SPY-OOB …`) without touching memory.
//!                     Takes the trait's default (iterator-built) driver bodies.
//! * `SpyVecFast<T>` – same, but overrides the five drivers exactly like `vec.rs`/`ndarray.rs`
//!                     (allocate `O::uninit(len)`, delegate to the trait-provided `*_to` loop,
//!                     `assume_init`), so the index arithmetic of the `*_to` bodies is reached.
//! * `SpyOut<T>`     – output container; its uninit buffer logs every `uset`, and
//!                     `assume_init` checks "every slot written exactly once" (`SPY-INIT …`).

use std::cell::RefCell;

use tevec::prelude::*;

#[derive(Clone, Debug, Default)]
pub struct SpyLog {
    pub ugets: u64,
    pub uslices: u64,
    pub titers: u64,
    /// (start,end) inclusive index ranges of consecutive ascending ugets of length >= 2 — a rescan
    pub last_idx: Option<usize>,
    pub run_len: usize,
    pub bursts: u64,
    pub max_burst: usize,
    pub oob: Option<String>,
    /// optional full trace of accessed indices (only when enabled)
    pub trace: Option<Vec<usize>>,
}

impl SpyLog {
    fn note_uget(&mut self, i: usize) {
        self.ugets += 1;
        if let Some(t) = self.trace.as_mut() {
            t.push(i);
        }
        match self.last_idx {
            Some(l) if i == l + 1 => {
                self.run_len += 1;
                if self.run_len == 3 {
                    self.bursts += 1;
                }
                if self.run_len > self.max_burst {
                    self.max_burst = self.run_len;
                }
            },
            _ => self.run_len = 1,
        }
        self.last_idx = Some(i);
    }
}

macro_rules! spy_common {
    ($name:ident) => {
        pub struct $name<T> {
            pub data: Vec<T>,
            pub log: RefCell<SpyLog>,
            /// logical step budget: number of full passes (`titer()` calls) allowed; exceeding it
            /// raises the marked panic `SPY-BUDGET` (bounded-progress monitor)
            pub pass_budget: std::cell::Cell<u64>,
        }

        impl<T> $name<T> {
            pub fn new(data: Vec<T>) -> Self {
                Self { data, log: RefCell::new(SpyLog::default()), pass_budget: std::cell::Cell::new(u64::MAX) }
            }
            pub fn with_trace(data: Vec<T>) -> Self {
                let mut l = SpyLog::default();
                l.trace = Some(Vec::new());
                Self { data, log: RefCell::new(l), pass_budget: std::cell::Cell::new(u64::MAX) }
            }
            pub fn take_log(&self) -> SpyLog {
                std::mem::take(&mut *self.log.borrow_mut())
            }
            fn oob(&self, what: String) -> ! {
                self.log.borrow_mut().oob = Some(what.clone());
                panic!("{what}");
            }
        }

        impl<T> GetLen for $name<T> {
            #[inline]
            fn len(&self) -> usize {
                self.data.len()
            }
        }

        impl<T: Clone> TIter<T> for $name<T> {
            #[inline]
            fn titer(&self) -> impl TIterator<Item = T> + '_ {
                let n = {
                    let mut l = self.log.borrow_mut();
                    l.titers += 1;
                    l.titers
                };
                if n > self.pass_budget.get() {
                    panic!("SPY-BUDGET pass {n} exceeds the budget of {}", self.pass_budget.get());
                }
                self.data.iter().cloned()
            }
        }
    };
}

macro_rules! spy_view_base {
    () => {
        type SliceOutput<'a>
            = &'a [T]
        where
            Self: 'a,
            T: 'a;

        #[inline]
        fn get_backend_name(&self) -> &'static str {
            "spy"
        }

        #[inline]
        fn slice<'a>(&'a self, start: usize, end: usize) -> TResult<Self::SliceOutput<'a>>
        where
            T: 'a,
        {
            self.log.borrow_mut().uslices += 1;
            if start > end || end > self.data.len() {
                self.oob(format!("SPY-OOB slice start={start} end={end} len={}", self.data.len()));
            }
            Ok(&self.data[start..end])
        }

        #[inline]
        unsafe fn uslice<'a>(&'a self, start: usize, end: usize) -> TResult<Self::SliceOutput<'a>>
        where
            T: 'a,
        {
            self.log.borrow_mut().uslices += 1;
            if start > end || end > self.data.len() {
                self.oob(format!("SPY-OOB uslice start={start} end={end} len={}", self.data.len()));
            }
            Ok(&self.data[start..end])
        }

        #[inline]
        unsafe fn uget(&self, index: usize) -> T {
            self.log.borrow_mut().note_uget(index);
            if index >= self.data.len() {
                self.oob(format!("SPY-OOB uget idx={index} len={}", self.data.len()));
            }
            self.data[index].clone()
        }
    };
}

spy_common!(SpyVec);
spy_common!(SpyVecFast);

impl<T: Clone> Vec1View<T> for SpyVec<T> {
    spy_view_base!();
}

impl<T: Clone> Vec1View<T> for SpyVecFast<T> {
    spy_view_base!();

    #[inline]
    fn rolling_custom<'a, O: Vec1<OT>, OT: Clone, F>(
        &'a self,
        window: usize,
        f: F,
        out: Option<O::UninitRefMut<'_>>,
    ) -> Option<O>
    where
        F: FnMut(Self::SliceOutput<'a>) -> OT,
        T: 'a,
    {
        let len = self.len();
        if let Some(out) = out {
            self.rolling_custom_to::<O, _, _>(window, f, out);
            None
        } else {
            let mut out = O::uninit(len);
            self.rolling_custom_to::<O, _, _>(window, f, O::uninit_ref_mut(&mut out));
            Some(unsafe { out.assume_init() })
        }
    }

    #[inline]
    fn rolling_apply<O: Vec1<OT>, OT, F>(
        &self,
        window: usize,
        f: F,
        out: Option<O::UninitRefMut<'_>>,
    ) -> Option<O>
    where
        F: FnMut(Option<T>, T) -> OT,
    {
        let len = self.len();
        if let Some(out) = out {
            self.rolling_apply_to::<O, _, _>(window, f, out);
            None
        } else {
            let mut out = O::uninit(len);
            self.rolling_apply_to::<O, _, _>(window, f, O::uninit_ref_mut(&mut out));
            Some(unsafe { out.assume_init() })
        }
    }

    #[inline]
    fn rolling2_apply<O: Vec1<OT>, OT, V2: Vec1View<T2>, T2, F>(
        &self,
        other: &V2,
        window: usize,
        f: F,
        out: Option<O::UninitRefMut<'_>>,
    ) -> Option<O>
    where
        F: FnMut(Option<(T, T2)>, (T, T2)) -> OT,
    {
        let len = self.len();
        if let Some(out) = out {
            self.rolling2_apply_to::<O, _, _, _, _>(other, window, f, out);
            None
        } else {
            let mut out = O::uninit(len);
            self.rolling2_apply_to::<O, _, _, _, _>(other, window, f, O::uninit_ref_mut(&mut out));
            Some(unsafe { out.assume_init() })
        }
    }

    #[inline]
    fn rolling_apply_idx<O: Vec1<OT>, OT, F>(
        &self,
        window: usize,
        f: F,
        out: Option<O::UninitRefMut<'_>>,
    ) -> Option<O>
    where
        F: FnMut(Option<usize>, usize, T) -> OT,
    {
        let len = self.len();
        if let Some(out) = out {
            self.rolling_apply_idx_to::<O, _, _>(window, f, out);
            None
        } else {
            let mut out = O::uninit(len);
            self.rolling_apply_idx_to::<O, _, _>(window, f, O::uninit_ref_mut(&mut out));
            Some(unsafe { out.assume_init() })
        }
    }

    #[inline]
    fn rolling2_apply_idx<O: Vec1<OT>, OT, V2: Vec1View<T2>, T2, F>(
        &self,
        other: &V2,
        window: usize,
        f: F,
        out: Option<O::UninitRefMut<'_>>,
    ) -> Option<O>
    where
        F: FnMut(Option<usize>, usize, (T, T2)) -> OT,
    {
        let len = self.len();
        if let Some(out) = out {
            self.rolling2_apply_idx_to::<O, _, _, _, _>(other, window, f, out);
            None
        } else {
            let mut out = O::uninit(len);
            self.rolling2_apply_idx_to::<O, _, _, _, _>(other, window, f, O::uninit_ref_mut(&mut out));
            Some(unsafe { out.assume_init() })
        }
    }
}

// ---------------------------------------------------------------------------------------
// output spy
// ---------------------------------------------------------------------------------------

thread_local! {
    /// totals over all SpyOut buffers of this thread (evidence)
    pub static OUT_STATS: RefCell<OutStats> = RefCell::new(OutStats::default());
}

#[derive(Clone, Debug, Default)]
pub struct OutStats {
    pub usets: u64,
    pub buffers_verified: u64,
    pub slots_verified: u64,
}

pub fn take_out_stats() -> OutStats {
    OUT_STATS.with(|s| std::mem::take(&mut *s.borrow_mut()))
}

#[derive(Debug, Clone)]
pub struct SpyOut<T> {
    pub data: Vec<T>,
}

pub struct SpyUninit<T> {
    pub slots: Vec<Option<T>>,
    pub writes: Vec<u32>,
}

pub struct SpyRefMut<'a, T> {
    pub inner: &'a mut SpyUninit<T>,
}

impl<T> SpyUninit<T> {
    pub fn new(len: usize) -> Self {
        let mut slots = Vec::with_capacity(len);
        slots.resize_with(len, || None);
        SpyUninit { slots, writes: vec![0; len] }
    }

    fn do_uset(&mut self, idx: usize, v: T) {
        OUT_STATS.with(|s| s.borrow_mut().usets += 1);
        if idx >= self.slots.len() {
            panic!("SPY-OOB uset idx={idx} len={}", self.slots.len());
        }
        self.writes[idx] += 1;
        if self.writes[idx] > 1 {
            panic!("SPY-INIT slot {idx} written {} times", self.writes[idx]);
        }
        self.slots[idx] = Some(v);
    }

    /// exactly-once check; Err(description) on breach
    pub fn verify(&self) -> Result<(), String> {
        for (i, w) in self.writes.iter().enumerate() {
            if *w != 1 {
                return Err(format!("SPY-INIT slot {i} written {w} times (len {})", self.writes.len()));
            }
        }
        OUT_STATS.with(|s| {
            let mut s = s.borrow_mut();
            s.buffers_verified += 1;
            s.slots_verified += self.writes.len() as u64;
        });
        Ok(())
    }

    /// finish a caller-supplied buffer (after the call returned): exactly-once check, then the data
    pub fn finish(self) -> Result<SpyOut<T>, String> {
        self.verify()?;
        Ok(SpyOut { data: self.slots.into_iter().map(|v| v.unwrap()).collect() })
    }
}

impl<T> GetLen for SpyOut<T> {
    fn len(&self) -> usize {
        self.data.len()
    }
}
impl<T> GetLen for SpyUninit<T> {
    fn len(&self) -> usize {
        self.slots.len()
    }
}
impl<T> GetLen for SpyRefMut<'_, T> {
    fn len(&self) -> usize {
        self.inner.slots.len()
    }
}

impl<T: Clone> TIter<T> for SpyOut<T> {
    fn titer(&self) -> impl TIterator<Item = T> + '_ {
        self.data.iter().cloned()
    }
}

impl<T: Clone> Vec1View<T> for SpyOut<T> {
    type SliceOutput<'a>
        = &'a [T]
    where
        Self: 'a,
        T: 'a;

    fn get_backend_name(&self) -> &'static str {
        "spyout"
    }

    fn slice<'a>(&'a self, start: usize, end: usize) -> TResult<Self::SliceOutput<'a>>
    where
        T: 'a,
    {
        Ok(&self.data[start..end])
    }

    unsafe fn uget(&self, index: usize) -> T {
        self.data[index].clone()
    }
}

impl<T: Clone> Vec1<T> for SpyOut<T> {
    type Uninit = SpyUninit<T>;
    type UninitRefMut<'a>
        = SpyRefMut<'a, T>
    where
        T: 'a;

    fn collect_from_iter<I: Iterator<Item = T>>(iter: I) -> Self {
        SpyOut { data: iter.collect() }
    }

    fn uninit(len: usize) -> Self::Uninit {
        SpyUninit::new(len)
    }

    fn uninit_ref_mut(uninit_vec: &mut Self::Uninit) -> Self::UninitRefMut<'_> {
        SpyRefMut { inner: uninit_vec }
    }
}

impl<T: Clone> UninitVec<T> for SpyUninit<T> {
    type Vec = SpyOut<T>;

    unsafe fn assume_init(self) -> Self::Vec {
        match self.finish() {
            Ok(v) => v,
            Err(e) => panic!("{e}"),
        }
    }

    unsafe fn uset(&mut self, idx: usize, v: T) {
        self.do_uset(idx, v)
    }
}

impl<T> UninitRefMut<T> for SpyRefMut<'_, T> {
    unsafe fn uset(&mut self, idx: usize, v: T) {
        self.inner.do_uset(idx, v)
    }
}
