//! Workload generators: value classes, null patterns, logical series and their encodings.

use crate::rng::Rng;

/// A logical series: `None` is the canonical null.
pub type Series = Vec<Option<f64>>;

#[derive(Clone, Copy, Debug, PartialEq, Eq, Hash)]
pub enum ValClass {
    Const,
    Alphabet3,
    SmallInt,
    Dyadic,
    Increasing,
    Decreasing,
    Plateaus,
    Sawtooth,
    Alternating,
    /// 1e6 + k/8 : cancellation stress, still on the dyadic grid (NOT in the exact class)
    LargeOffset,
    /// uniform floats in [-1e3, 1e3]
    Uniform,
    /// uniform floats in [-1, 1]
    UnitFloat,
    /// random walk with float steps
    Walk,
    /// one non-dyadic float repeated (zero spread, inexact power sums)
    FloatConst,
    /// runs (length 1..6) over an alphabet of 2-3 non-dyadic floats of different magnitude:
    /// interrupted plateaus `c, d, c, c, c` - constant windows reached with inexact running sums
    FloatPlateaus,
}

pub const EXACT_CLASSES: [ValClass; 9] = [
    ValClass::Const,
    ValClass::Alphabet3,
    ValClass::SmallInt,
    ValClass::Dyadic,
    ValClass::Increasing,
    ValClass::Decreasing,
    ValClass::Plateaus,
    ValClass::Sawtooth,
    ValClass::Alternating,
];

/// classes whose values are all integers (usable for i32 / i64 element types)
pub const INT_CLASSES: [ValClass; 8] = [
    ValClass::Const,
    ValClass::Alphabet3,
    ValClass::SmallInt,
    ValClass::Increasing,
    ValClass::Decreasing,
    ValClass::Plateaus,
    ValClass::Sawtooth,
    ValClass::Alternating,
];

pub const FLOAT_CLASSES: [ValClass; 6] = [
    ValClass::LargeOffset,
    ValClass::Uniform,
    ValClass::UnitFloat,
    ValClass::Walk,
    ValClass::FloatConst,
    ValClass::FloatPlateaus,
];

pub const ALL_CLASSES: [ValClass; 15] = [
    ValClass::FloatConst,
    ValClass::FloatPlateaus,
    ValClass::Const,
    ValClass::Alphabet3,
    ValClass::SmallInt,
    ValClass::Dyadic,
    ValClass::Increasing,
    ValClass::Decreasing,
    ValClass::Plateaus,
    ValClass::Sawtooth,
    ValClass::Alternating,
    ValClass::LargeOffset,
    ValClass::Uniform,
    ValClass::UnitFloat,
    ValClass::Walk,
];

impl ValClass {
    pub fn is_int(self) -> bool {
        INT_CLASSES.contains(&self)
    }
}

/// Values of one class. Classes in `EXACT_CLASSES` only produce multiples of 1/8 with
/// |v| <= 64, so that every power sum up to the 4th power over windows up to 4096 elements
/// is exactly representable in f64 (and sums / cross products in f32 up to windows of 2^10).
pub fn values(rng: &mut Rng, class: ValClass, len: usize) -> Vec<f64> {
    let mut v = Vec::with_capacity(len);
    match class {
        ValClass::Const => {
            let c = rng.range_i64(-8, 8) as f64;
            v.resize(len, c);
        },
        ValClass::Alphabet3 => {
            for _ in 0..len {
                v.push(rng.below(3) as f64);
            }
        },
        ValClass::SmallInt => {
            for _ in 0..len {
                v.push(rng.range_i64(-8, 8) as f64);
            }
        },
        ValClass::Dyadic => {
            for _ in 0..len {
                v.push(rng.range_i64(-64, 64) as f64 / 8.0);
            }
        },
        ValClass::Increasing => {
            // strictly increasing runs, wrapped to stay within [-60, 60]
            let mut cur = rng.range_i64(-20, 0);
            for _ in 0..len {
                v.push(cur as f64);
                cur += rng.range_i64(1, 2);
                if cur > 60 {
                    cur = -60;
                }
            }
        },
        ValClass::Decreasing => {
            let mut cur = rng.range_i64(0, 20);
            for _ in 0..len {
                v.push(cur as f64);
                cur -= rng.range_i64(1, 2);
                if cur < -60 {
                    cur = 60;
                }
            }
        },
        ValClass::Plateaus => {
            let mut cur = rng.range_i64(-8, 8);
            let mut left = rng.range_usize(1, 5);
            for _ in 0..len {
                if left == 0 {
                    cur = rng.range_i64(-8, 8);
                    left = rng.range_usize(1, 5);
                }
                v.push(cur as f64);
                left -= 1;
            }
        },
        ValClass::Sawtooth => {
            let period = rng.range_usize(2, 7);
            let amp = rng.range_i64(1, 6);
            for i in 0..len {
                v.push(((i % period) as i64 * amp) as f64);
            }
        },
        ValClass::Alternating => {
            let a = rng.range_i64(1, 9) as f64;
            for i in 0..len {
                v.push(if i % 2 == 0 { a } else { -a });
            }
        },
        ValClass::LargeOffset => {
            for _ in 0..len {
                v.push(1e6 + rng.range_i64(-64, 64) as f64 / 8.0);
            }
        },
        ValClass::Uniform => {
            for _ in 0..len {
                v.push(rng.uniform(-1e3, 1e3));
            }
        },
        ValClass::UnitFloat => {
            for _ in 0..len {
                v.push(rng.uniform(-1.0, 1.0));
            }
        },
        ValClass::FloatConst => {
            // half of the time a small magnitude: there the rounding residue of the one-pass
            // variance of a constant window sits between f64::EPSILON and the library's EPS floor
            // (for |c| around 1 and short histories the a-priori bound of DESIGN 5.1 is below the floor,
            // i.e. the floor branch is guaranteed and the result is judged)
            let c = match rng.below(3) {
                0 => rng.uniform(0.6, 1.4) * if rng.chance(0.5) { -1.0 } else { 1.0 },
                1 => rng.uniform(-8.0, 8.0),
                _ => rng.uniform(-100.0, 100.0),
            };
            v.resize(len, c);
        },
        ValClass::FloatPlateaus => {
            let k = rng.range_usize(2, 3);
            let scale = [0.01, 1.0, 1.0, 10.0, 100.0][rng.below(5)];
            let mut alpha = vec![rng.uniform(-100.0, 100.0) * scale];
            for _ in 1..k {
                alpha.push(if rng.chance(0.5) { rng.uniform(-5000.0, 5000.0) } else { rng.uniform(-100.0, 100.0) });
            }
            let mut cur = 0usize;
            let mut left = rng.range_usize(1, 6);
            for _ in 0..len {
                if left == 0 {
                    // mostly come back to the first letter: c, d, c, c, c, ...
                    cur = if cur != 0 && rng.chance(0.7) { 0 } else { rng.below(k) };
                    left = if cur == 0 { rng.range_usize(1, 6) } else { rng.range_usize(1, 2) };
                }
                v.push(alpha[cur]);
                left -= 1;
            }
        },
        ValClass::Walk => {
            let mut cur = rng.uniform(-10.0, 10.0);
            for _ in 0..len {
                v.push(cur);
                cur += rng.normal();
            }
        },
    }
    v
}

/// true when every value is a multiple of 1/8 with |v| <= 64 (the exact class, §5.1)
pub fn is_exact_grid(xs: &[Option<f64>]) -> bool {
    xs.iter().all(|v| match v {
        None => true,
        Some(x) => x.abs() <= 64.0 && (x * 8.0).fract() == 0.0,
    })
}

#[derive(Clone, Copy, Debug, PartialEq, Eq, Hash)]
pub enum NullPat {
    NoNulls,
    All,
    Leading,
    Trailing,
    Alternating,
    Random10,
    Random50,
    Random90,
    SingleValid,
    Blocks,
}

pub const NULL_PATTERNS: [NullPat; 10] = [
    NullPat::NoNulls,
    NullPat::All,
    NullPat::Leading,
    NullPat::Trailing,
    NullPat::Alternating,
    NullPat::Random10,
    NullPat::Random50,
    NullPat::Random90,
    NullPat::SingleValid,
    NullPat::Blocks,
];

/// mask[i] == true means position i is null
pub fn null_mask(rng: &mut Rng, pat: NullPat, len: usize) -> Vec<bool> {
    let mut m = vec![false; len];
    if len == 0 {
        return m;
    }
    match pat {
        NullPat::NoNulls => {},
        NullPat::All => m.iter_mut().for_each(|b| *b = true),
        NullPat::Leading => {
            let k = rng.range_usize(1, len);
            m[..k].iter_mut().for_each(|b| *b = true);
        },
        NullPat::Trailing => {
            let k = rng.range_usize(1, len);
            m[len - k..].iter_mut().for_each(|b| *b = true);
        },
        NullPat::Alternating => {
            let off = rng.below(2);
            for i in 0..len {
                m[i] = (i + off) % 2 == 0;
            }
        },
        NullPat::Random10 => m.iter_mut().for_each(|b| *b = rng.chance(0.1)),
        NullPat::Random50 => m.iter_mut().for_each(|b| *b = rng.chance(0.5)),
        NullPat::Random90 => m.iter_mut().for_each(|b| *b = rng.chance(0.9)),
        NullPat::SingleValid => {
            m.iter_mut().for_each(|b| *b = true);
            let k = rng.below(len);
            m[k] = false;
        },
        NullPat::Blocks => {
            let mut i = 0;
            let mut null = rng.chance(0.5);
            while i < len {
                let k = rng.range_usize(1, 4);
                for j in i..(i + k).min(len) {
                    m[j] = null;
                }
                null = !null;
                i += k;
            }
        },
    }
    m
}

pub fn series(rng: &mut Rng, class: ValClass, pat: NullPat, len: usize) -> Series {
    let v = values(rng, class, len);
    let m = null_mask(rng, pat, len);
    v.into_iter().zip(m).map(|(v, n)| if n { None } else { Some(v) }).collect()
}

pub fn random_series(rng: &mut Rng, classes: &[ValClass], len: usize) -> (Series, ValClass, NullPat) {
    let c = *rng.pick(classes);
    let p = *rng.pick(&NULL_PATTERNS);
    (series(rng, c, p, len), c, p)
}

// ---- encodings -------------------------------------------------------------------------

pub fn enc_f64(s: &[Option<f64>]) -> Vec<f64> {
    s.iter().map(|v| v.unwrap_or(f64::NAN)).collect()
}
pub fn enc_f32(s: &[Option<f64>]) -> Vec<f32> {
    s.iter().map(|v| v.map(|x| x as f32).unwrap_or(f32::NAN)).collect()
}
pub fn enc_opt_f64(s: &[Option<f64>]) -> Vec<Option<f64>> {
    s.to_vec()
}
pub fn enc_opt_f32(s: &[Option<f64>]) -> Vec<Option<f32>> {
    s.iter().map(|v| v.map(|x| x as f32)).collect()
}
pub fn enc_opt_i32(s: &[Option<f64>]) -> Vec<Option<i32>> {
    s.iter().map(|v| v.map(|x| x as i32)).collect()
}
pub fn enc_opt_i64(s: &[Option<f64>]) -> Vec<Option<i64>> {
    s.iter().map(|v| v.map(|x| x as i64)).collect()
}
/// only for series without nulls
pub fn enc_i32(s: &[Option<f64>]) -> Vec<i32> {
    s.iter().map(|v| v.expect("no nulls for i32") as i32).collect()
}
pub fn enc_i64(s: &[Option<f64>]) -> Vec<i64> {
    s.iter().map(|v| v.expect("no nulls for i64") as i64).collect()
}

pub fn has_nulls(s: &[Option<f64>]) -> bool {
    s.iter().any(|v| v.is_none())
}

pub fn fmt_series(s: &[Option<f64>]) -> String {
    let mut o = String::from("[");
    for (i, v) in s.iter().enumerate() {
        if i > 0 {
            o.push(',');
        }
        match v {
            None => o.push_str("null"),
            Some(x) => o.push_str(&format!("{x:?}")),
        }
        if i >= 63 && s.len() > 70 {
            o.push_str(&format!(",...(len {})", s.len()));
            break;
        }
    }
    o.push(']');
    o
}

pub fn fmt_f64s(s: &[f64]) -> String {
    let mut o = String::from("[");
    for (i, v) in s.iter().enumerate() {
        if i > 0 {
            o.push(',');
        }
        o.push_str(&format!("{v:?}"));
        if i >= 63 && s.len() > 70 {
            o.push_str(&format!(",...(len {})", s.len()));
            break;
        }
    }
    o.push(']');
    o
}

/// VecDeque holding `data` whose ring-buffer head is offset by `rot` slots, so that the
/// content wraps around the end of the allocation when `rot + len > capacity`.
pub fn deque_of<T: Clone>(data: &[T], rot: usize) -> std::collections::VecDeque<T> {
    let mut d: std::collections::VecDeque<T> = std::collections::VecDeque::with_capacity(data.len());
    if data.is_empty() {
        return d;
    }
    let cap = d.capacity().max(1);
    let rot = rot % cap;
    for _ in 0..rot {
        d.push_back(data[0].clone());
    }
    for _ in 0..rot {
        d.pop_front();
    }
    for v in data {
        d.push_back(v.clone());
    }
    debug_assert!(d.capacity() == cap);
    d
}

pub fn deque_is_wrapped<T>(d: &std::collections::VecDeque<T>) -> bool {
    !d.as_slices().1.is_empty()
}

/// true when every non-null value of every series is an integer of moderate size
pub fn int_valued(xs: &[&Series]) -> bool {
    for s in xs {
        for v in s.iter() {
            if let Some(f) = v {
                if f.fract() != 0.0 || f.abs() >= 1e6 {
                    return false;
                }
            }
        }
    }
    true
}
