#!/usr/bin/env python3
"""Regenerate /verif/MANIFEST.json from lib/props.py (single source of truth)."""
import json, os, sys
HERE = os.path.dirname(os.path.abspath(__file__))
sys.path.insert(0, HERE)
from props import PROPS
VERIF = os.path.dirname(HERE)
props = [json.loads(l) for l in open(os.path.join(VERIF, "properties.jsonl"))]
ids = [p["id"] for p in props]
hooks_commits = os.environ.get("HOOK_COMMITS", "").split()
checks = []
for pid in ids:
    if pid not in PROPS:
        continue
    c = PROPS[pid]
    modes_q = "+".join(m for m, _ in c["quick"])
    modes_t = "+".join(m for m, _ in c["thorough"])
    checks.append(dict(
        property_id=pid,
        quick_cmd=f"./check {pid} --tier quick",
        thorough_cmd=f"./check {pid} --tier thorough",
        evidence_file=f"/verif/evidence/{pid}.json",
        replay_cmd_template=f"./check {pid} --replay {{path}}",
        engine="tvmon",
        level_claimed=dict(
            category="exploration",
            text=c.get("level_text", "Runtime monitoring: the real code is executed on generated workloads and every observed "
                       "call is judged by an independent reference-model / trace monitor; the property held on the executions "
                       f"observed (modes quick: {modes_q}; thorough: {modes_t}). Not a proof: only generated inputs are covered."),
            design_ref=f"DESIGN.md §4.{pid}",
        ),
        level_note=c.get("level_note", "trusted: the reference models in harness/src (independent from-scratch definitions), the float "
                          "tolerance rule of DESIGN §5.1, the workload generators; rustc/Miri/ASan/valgrind where used"),
        technique=c.get("technique", "runtime monitoring: reference-model oracle over recorded API calls"),
    ))
na = [dict(property_id=pid, reason="monitor not implemented yet in this revision") for pid in ids if pid not in PROPS]
m = dict(
    version=1,
    setup_cmd="cd /verif && ./check --build-all",
    hooks=dict(
        guard="cargo feature `verif-hooks` of crate tea-core (off by default)",
        enable="harness/Cargo.toml feature `hooks` = [\"tea-core/verif-hooks\"]; ./check builds the dbg and rel modes with --features hooks, the sanitizer modes (miri, asan, vg) without",
        baseline_off_cmd="cd /repo && cargo test --workspace --no-fail-fast --offline",
        source_commits=hooks_commits,
        add_only=True,
    ),
    engines=[dict(name="tvmon", path="/verif/harness", serves_properties=[c["property_id"] for c in checks],
                  kind_free_text="Rust harness: workload generators + reference-model / trace monitors + instrumented containers; "
                                 "run natively (hooks on), under Miri, AddressSanitizer and valgrind memcheck (hooks off) by /verif/check")],
    checks=checks,
    notes="Verdicts are three-valued: exit 0 held / exit 1 VIOLATION / exit 2 INCONCLUSIVE. Known findings: /verif/known_findings.json (none open; every defect found was repaired by a fix: commit in /repo). Self-tests of the machinery: /verif/seeded (72 breaking changes), /verif/preserving (20 property-preserving changes), /verif/selftest (mutation campaign, lanes); see DESIGN.md section 10.",
    not_applicable=na,
)
json.dump(m, open(os.path.join(VERIF, "MANIFEST.json"), "w"), indent=1)
print("wrote MANIFEST.json with", len(checks), "checks;", len(na), "not claimed")
