"""Per-property configuration of the runtime-monitoring checks (see DESIGN.md §4).

modes: dbg  = dev profile (overflow checks, debug assertions, std ub_checks), hooks H1-H3 on
       rel  = release-like profile (wrapping arithmetic, no debug assertions), hooks on
       miri = cargo miri run, dev profile, hooks off         (scale: fraction of the native budget)
       mirirel = cargo miri run, release-like profile, hooks off
       asan = AddressSanitizer, release-like profile, hooks off
       vg   = valgrind memcheck on the release-like binary built with hooks off
"""

# (mode, scale)
NATIVE_Q = [("dbg", 1.0), ("rel", 1.0)]
NATIVE_QR = [("dbg", 1.0), ("rel", 1.0)]
NATIVE_T = [("dbg", 1.0), ("rel", 1.0)]


def deep(d):
    """thorough tier, native modes: size bounds of the thorough sweeps, d times the random cases"""
    return [("dbg", (1.0, d)), ("rel", (1.0, d))]

PROPS = {
    "C01": dict(
        bin="c01", features=["fdiff"],
        quick=NATIVE_Q, thorough=deep(4),
        floors={"value.ts_vsum": 100, "value.ts_kurt": 100, "value.ts_vfdiff": 50, "value.ts_fdiff": 50,
                "null.ts_vstd": 100, "long_histories": 1},
        rule="sweep (len 0..N x window 1..len+2 x min_periods {None,0..w} x 10 null patterns, exact-grid value classes) "
             "+ random (len<=80, 13 value classes incl. float / large-offset) + long histories (4e3..1e5 elements, windows 2..500); "
             "each case is run over the element-type/backend/output combinations; every output position is one event compared "
             "with a from-scratch two-pass evaluation of its window (bound: DESIGN 5.1). distinct = (function, type combo, "
             "len bucket, window, min_periods, path, value class/null pattern) with >=1 value-compared position",
    ),
    "C02": dict(
        bin="c02", features=["polars"],
        quick=[("dbg", 1.0), ("rel", 1.0), ("miri", 0.7)],
        thorough=deep(4) + [("miri", 1.0), ("mirirel", 1.0), ("asan", (0.5, 2))],
        floors={"ok.rolling_apply": 100, "ok.rolling_apply_idx": 100, "ok.rolling2_apply": 100, "ok.rolling2_apply_idx": 100,
                "ok.rolling_custom": 100, "ok.rolling2_custom": 50, "ok.rolling_custom_iter": 50, "okpath.To": 50, "okpath.Buf": 50,
                "injected_panics_propagated": 50, "unspecified_removal_positions": 10, "spyout.buffers_verified": 50,
                "second_series_longer": 20, "wrapped_deque_buffers": 20},
        technique="runtime monitoring: online trace automaton over a recording callback (unique-id elements), Miri/ASan on the same executions",
        rule="len 0..N x window 1..len+3 x {recording, stateful (order-sensitive checksum), panicking-at-k} callbacks x 7 driver entry "
             "points and their *_to forms x {returned, caller buffer via entry point, direct *_to} x backends (Vec, VecDeque rotated, "
             "Array1, strided/reversed ArrayView1, Arc<Vec>, Arc<Array1>, OptIter, SpyVec, SpyVecFast, polars 1-3 chunks) x output containers "
             "(Vec, VecDeque incl. caller-supplied ring buffers with a rotated head, Array1, SpyOut exactly-once, polars where collectable). Input elements are unique ids 1000+i / 2000+i, the second series 0-2 elements longer than the first; "
             "the automaton accepts a call iff it is for the next position with the prescribed removed/start/slice arguments; "
             "output[i] must hold the result of call i. distinct = (driver, backend->output, len, window, path, callback kind)",
    ),
    "C03": dict(
        bin="c03",
        quick=NATIVE_Q, thorough=deep(8),
        floors={"value.ts_vmin": 100, "value.ts_vargmax": 100, "value.ts_vrank[pct=1,rev=1]": 100, "value.ts_vzscore": 50,
                "value.ts_vminmaxnorm": 50, "state.extreme_expired": 50,
                "state.extreme_expired_newest_null": 5, "state.all_null_window": 20, "state.tied_extreme": 50,
                "state.constant_inexact_window_after_interrupted_run": 20},
        rule="sweep (len 1..N x window 1..len+2 x min_periods {None,0..w} x 10 null patterns) + random (len<=90) + long monotone/plateau "
             "histories; value classes emphasise tiny alphabets, monotone runs, plateaus, interrupted plateaus of non-dyadic floats "
             "(c, d, c, c, c: zero spread reached with inexact running sums); inputs Vec, SpyVecFast (rescans observable), "
             "SpyVec/VecDeque/OptIter (default driver body), int/float/Option element types; every output position compared exactly "
             "(min,max,arg,rank) or within the DESIGN 5.1 bound (zscore) / 2ulp (minmaxnorm) with a brute-force window evaluation. "
             "distinct = (function, type combo, len bucket, window, min_periods, path, value class/null pattern)",
    ),
    "C04": dict(
        bin="c04",
        quick=NATIVE_Q, thorough=deep(8),
        floors={"value.ts_vcov": 100, "value.ts_vcorr": 100, "value.ts_vregx_beta": 100, "value.ts_vregx_resid_std": 50,
                "value.ts_vregx_resid_skew": 20, "value.ts_vregx_all.2": 50, "value.ts_vreg_resid_mean": 50, "value.ts_vtsf": 100,
                "perfect_linear_series": 5, "long_histories": 1},
        rule="pairs (y, x) of equal-length series with independent null patterns: independent / exactly collinear / noisy-collinear / "
             "constant regressor; sweep (len 0..N x window 2..len+2 x min_periods {None,0..w}) + random (len<=70) + long histories; "
             "trend family on single series incl. exactly linear ones. Every position compared with OLS from scratch on the "
             "pairwise-complete window (centred two-pass), bound per DESIGN 5.1; undefined statistics are unconstrained and counted. "
             "distinct = (function, type combo, len bucket, window, min_periods, path, relation/value class/null patterns)",
    ),
    "C05": dict(
        bin="c05", features=["polars"],
        quick=NATIVE_Q, thorough=deep(3),
        floors={"empty_input_cases": 10, "null.ts_vkurt": 100, "value.ts_vkurt": 100, "null.ts_vcov": 100, "value.ts_vregx_all.2": 50,
                "backend.polars<f64>": 20, "backend.deque<f64>": 20, "backend.arrayview1<f64>": 20, "backend.arc<array1<f64>>": 20,
                "backend.optiter(vec<f64>)": 20, "deque_wrapped": 10},
        rule="all rolling entry points (8 plain, 8 null-aware moments, 10 extrema/rank/norm, 5 trend, 10 two-series) x 16 input backends "
             "(Vec, [T;N], VecDeque wrapped/contiguous, Array1, strided/reversed ArrayView1, ArrayViewMut1, Arc<Vec>, Arc<Array1>, OptIter, "
             "Option / integer element types, SpyVec, SpyVecFast, polars with 1-3 chunks) x len 0..N x window 1..len+3 x min_periods "
             "{None,0..w} x 10 null patterns; output length and null mask judged exactly against the count rule (values not judged "
             "here); omitted min_periods with len<w skipped for the extrema/rank family (DESIGN 5.3). distinct = (function, backend, "
             "len bucket, window, min_periods, path, class) with >=1 non-null output",
    ),
    "C06": dict(
        bin="c06",
        quick=NATIVE_Q, thorough=deep(20),
        floors={"prefix_pairs": 1000, "prefix_ok.ts_vkurt": 10, "prefix_ok.ts_vregx_resid_skew": 5, "prefix_ok.vdiff": 10,
                "prefix_ok.vpct_change": 10, "prefix_ok.shift": 10, "history_ok.ts_vmin": 10, "history_ok.ts_vstd": 10,
                "history_ok.ts_vcorr": 5, "history_positions": 1000},
        rule="relational monitor over pairs of executions: (i) for every cut k in 0..=len the result on the prefix x[..k] must equal the "
             "first k outputs on the whole series bit for bit - all 41 rolling entry points (Vec fast path and VecDeque default body, both "
             "output paths) plus shift/vshift/vdiff/vpct_change with n>=0; omitted min_periods only for k>=w; (ii) two histories hA, hB "
             "(finite, up to 1e3x the window's magnitude, any null pattern) followed by a common suffix: outputs whose window lies in "
             "the suffix must agree exactly (min/max/arg/rank) or within the sum of the DESIGN 5.1 bounds of both runs. distinct = "
             "(kind, function, backend, lengths, window, min_periods)",
    ),
    "C07": dict(
        bin="c07", features=["polars"],
        quick=[("dbg", 1.0), ("rel", 1.0)],
        thorough=deep(3) + [("miri", 1.0), ("asan", (0.5, 2))],
        floors={"cells_equal": 10000, "map_cells_equal": 1000, "accessors.deque": 20, "accessors.arrayview1(step-1)": 5,
                "accessors.arrayview1(step3)": 5, "deque_wrapped": 10, "try_as_slice_offered": 10, "spyout.buffers_verified": 100},
        technique="runtime monitoring: differential matrix monitor (every cell vs the Vec->Vec reference cell, bit for bit) + accessor coherence checks; Miri/ASan on the non-polars cells",
        rule="matrix input backend (Vec, [T;N], VecDeque any rotation, Array1, ArrayView1 steps {1,2,3,-1,-2}, ArrayViewMut1, Arc<Vec>, "
             "Arc<Array1>, Vec<Option>, OptIter(Vec|Array1), SpyVec, SpyVecFast, polars 1-3 chunks) x output container (Vec, VecDeque, "
             "Array1, SpyOut, Vec<Option<f64>>, polars) x {returned, caller buffer} x 41 rolling entry points, plus vdiff / vpct_change / "
             "vrank / vpartition / varg_partition / vquantile / winsorize and 10 aggregations through titer() on every backend; reference "
             "cell Vec->Vec returned; equality bit for bit after decoding the null encoding. Accessor coherence: len, get(i) i<len+2, "
             "uget, vget / uvget, titer, titer().rev(), to_opt_iter, opt_iter_cast, iter_cast, slice(a,b) for all a<=b<=len, try_as_slice when offered. distinct = (function, cell, path, "
             "len, window, min_periods) with a non-null output / (accessor suite, backend, len)",
    ),
    "C08": dict(
        bin="c08",
        quick=NATIVE_Q, thorough=deep(8),
        floors={"reencode_ok.input=Option<f64>": 1000, "reencode_ok.output=Option<i32>": 500, "reencode_ok.output=f32": 500,
                "map_reencode_ok": 1000, "insertion_ok": 1000, "insertion_ok.vquantile": 50, "insertion_ok.vcorr_pearson": 50,
                "insertion_ok.vargmax": 50, "insertion_ok.vkurt": 50},
        technique="runtime monitoring: relational (metamorphic) monitor over pairs of executions of the real code",
        rule="(i) every null-aware rolling entry point (30) on the same logical series encoded as NaN-floats, Option, and through the "
             "opt() view, with outputs requested as f64 / Option<f64> / f32 / Option<i32>: results must decode to the same values bit for "
             "bit (f32 / i32 by the language cast of the f64 result); 38 map / aggregation entry points under both encodings incl. "
             "null-valued fill / bounds / score arguments; (ii) null insertion (leading, trailing, interleaved, random, block; for "
             "two-series functions a null on one side only) must leave 19 aggregations / order statistics exactly unchanged, arg-extrema "
             "after mapping indices. distinct = (function, relation, len, window / parameters)",
    ),
    "C09": dict(
        bin="c09", features=["polars"],
        quick=[("dbg", 1.0), ("rel", 1.0), ("miri", 1.0), ("mirirel", 1.0), ("asan", 0.5)],
        thorough=deep(4) + [("miri", 1.0), ("mirirel", 1.0), ("asan", (0.5, 2)), ("vg", 0.05)],
        floors={"subjects.shift": 50, "subjects.vshift": 50, "subjects.vdiff": 50, "subjects.vpartition": 50, "subjects.varg_partition": 50,
                "subjects.vcut": 20, "subjects.winsorize": 5, "subjects.rolling_custom_iter": 10, "subjects.pipeline": 100,
                "partial_probes_ok": 500, "nth_probes_ok": 500, "collectors_ok": 500, "titer_ok": 20, "generators_ok": 20,
                "subjects.range_iter": 20, "subjects.linspace_iter": 20, "generator_iter_probes_ok": 100},
        technique="runtime monitoring: conservation monitor (announced = yielded at every probe point) + hook H1 in the raw collectors; Miri (dev and release-like), ASan, memcheck on the un-hooked collectors",
        rule="every trusted-length iterator the library hands out: titer() of each backend (front/back partial consumption), shift / vshift / "
             "vdiff / vpct_change over lags -len-3..=len+3 and i32::MIN/MAX, ffill / bfill / fill / abs / vabs / vclip (5 bound shapes), "
             "vpartition / varg_partition k in 0..=len+2 x sort x rev, winsorize (3 methods), rolling_custom_iter w in 1..=len+2, vcut over "
             "bins 0..3 x labels 0..4 x flags, range / linspace through the collecting constructors and (hook H4, native modes) "
             "as bare generator iterators incl. consumption from the back, and random pipelines of depth 1..6 "
             "(library adaptors + std map/take/chain/zip/enumerate/step_by) over Box<dyn TrustedLen>. size_hint().1 is compared with the "
             "number of items obtained by safe iteration before consumption, after every partial consumption by next() and after "
             "nth(j) for j around the end; then "
             "collect_trusted_vec1 into Vec / VecDeque / Array1 / polars must reproduce the safely iterated content. distinct = (subject, "
             "yielded length, parameters)",
    ),
    "C10": dict(
        bin="c10",
        quick=[("dbg", 1.0), ("rel", 1.0), ("miri", 0.7), ("mirirel", 0.7), ("asan", 0.3)],
        thorough=deep(2) + [("miri", 1.0), ("mirirel", 1.0), ("asan", 0.5), ("vg", 0.05)],
        floors={"spy.ugets": 10000, "spy.uslices": 10, "spyout.buffers_verified": 1000, "spyout.usets": 10000, "defined_results": 1000,
                "cases.window0": 5, "cases.second_series_shorter": 5, "kernel_defined_results": 500, "string_driver_ok": 50,
                "string_driver_injected_panics": 20},
        technique="runtime monitoring: instrumented input/output containers (access log, write log, exactly-once), poison + bounds hooks H2/H3; Miri (dev and release-like), ASan and valgrind memcheck on the same call list with real containers",
        rule="all rolling entry points x inputs (SpyVec default body, SpyVecFast fast-path body, real Vec / Array1 / VecDeque) x outputs "
             "(SpyOut exactly-once, real Vec / Array1 / VecDeque with poison scan) x {returned, caller buffer}, len 0..N, window 0..=len+3, "
             "min_periods {None,0..w}, null patterns, second series shorter / longer than the first; vrank / vpartition / varg_partition "
             "(k 0..=len+3) / vquantile on SpyVec and real backends; String-valued drivers incl. a callback panicking at every position. "
             "Accepted: fully defined result or clean (ordinary) panic; violation: marked spy/hook panic, poison value, abort, "
             "sanitizer report. distinct = (function, cell, path, len, window, min_periods, length difference of the second series)",
    ),
    "C11": dict(
        bin="c11",
        quick=NATIVE_Q, thorough=deep(8),
        floors={"ok.vkurt": 200, "null.vkurt": 50, "ok.vcorr_pearson": 200, "ok.vargmax": 200, "ok.n_vsum_filter.sum": 100, "ok.argmin": 50,
                "ok.vany": 100, "permutation_ok": 500, "null.vvar": 20},
        rule="len 0..N x 10 null patterns x min_periods 0..6 (sweep, all degenerate sizes n=0..4) + random len<=200, 14 value classes "
             "(heavy ties, constants, floats); sources: owned Vec, titer(), opt() view, VecDeque, Array1, Option / integer element types; "
             "33 aggregation entry points judged against definitions evaluated on the non-null elements (exact for counts / first / "
             "last / any / all / extrema / arg-extrema, DESIGN 5.1 bound for moments), null iff fewer than the required observations; "
             "masked sums / means; permutation invariance of the symmetric ones. distinct = (function, source, len, min_periods) with a "
             "non-null result",
    ),
    "C12": dict(
        bin="c12",
        quick=[("dbg", 1.0), ("rel", 1.0), ("miri", 0.6)],
        thorough=deep(4) + [("miri", 1.0), ("asan", (0.5, 2))],
        floors={"quantile_ok": 500, "quantile_ok_integer_index": 100, "quantile_null_ok": 20, "quantile_err_ok": 20, "percentile_ok": 500,
                "rank_ok": 200, "partition_ok": 500, "arg_partition_ok": 500, "single_valid_not_first": 3},
        rule="len 0..N x 10 null patterns (incl. 'the only valid element not in first position') x value classes with heavy ties + "
             "random len<=40; vquantile over a rational q grid (0, 1, 1/2, k/(n-1) making (n-1)q an exact integer, ...) x 4 methods, "
             "judged against the sorted valid elements with the exact rational index (either neighbour pair accepted at integer "
             "indices, DESIGN 5.5); q outside [0,1] must be Err; vpercentile_of (3 methods, both encodings, null score); vrank (pct x rev, "
             "3 type combos, incl. length 1); vpartition / varg_partition for k 0..=len+1 x sort x rev: exactly k+1 entries, right "
             "multiset, order when sorted, padding only at the end, never a null. distinct = (function, encoding, len, n valid, "
             "parameters)",
    ),
    "C13": dict(
        bin="c13",
        quick=[("dbg", 1.0), ("rel", 1.0), ("miri", 0.6)],
        thorough=deep(4) + [("miri", 1.0), ("mirirel", 1.0), ("asan", (0.5, 2))],
        floors={"ok.shift": 500, "ok.vshift": 500, "ok.vdiff": 500, "ok.vpct_change": 500, "ok.ffill": 50, "ok.bfill": 50, "ok.fill": 30,
                "ok.vclip": 100, "ok.vabs": 30, "clip_idempotent_ok": 50},
        rule="len 0..N x 10 null patterns + random len<=60 (with zero bases); lags -len-3..=len+3 and i32::MIN/MAX; fill null / 0 / "
             "random; bounds in every order relation incl. null and data-valued; f64 (NaN), Option<f64> and i32 element types; "
             "view-based operations also on VecDeque and strided ArrayView1. Every result compared element by element (exact) with the "
             "positional definition; clip idempotence / containment for lower<=upper. distinct = (function, type, len, parameters) "
             "with a non-null element",
    ),
    "C14": dict(
        bin="c14",
        quick=NATIVE_QR, thorough=deep(40),
        floors={"cut_label_ok": 1000, "cut_null_ok": 50, "cut_outside_err_ok": 100, "cut_label_mismatch_err_ok": 100, "cut_extreme_cases": 20,
                "cut_label_ok_i32": 200, "ok.vsorted_unique_idx(First)": 200, "ok.vsorted_unique_idx(Last)": 200, "ok.vsorted_unique": 200},
        rule="vcut: ascending edge vectors of size 0..5 x label counts 0..6 x {right, left closed} x {open outer bounds, none}; values "
             "random, equal to an edge, nulls, and the element type's MIN / MAX / +-inf (f64 and i32 elements, f64 / Option<i32> labels); "
             "oracle = the unique interval containing the value, Err for an outside value, Err for a label-count mismatch. "
             "vsorted_unique_idx(First|Last) / vsorted_unique on run-structured series (ascending / descending runs of length 1..4, null "
             "block of 0..3 at head or tail, both encodings): oracle = first / last index of each run of equal non-null values. "
             "distinct = (function, parameters, len)",
    ),
    "C15": dict(
        bin="c15",
        quick=NATIVE_QR, thorough=NATIVE_T,
        floors={"isnone_laws_ok": 100, "numeric_casts_ok": 500, "time_null_casts_ok": 30, "time_value_casts_ok": 20, "bool_casts_ok": 10, "string_casts_ok": 20,
                "order_axioms_checked.f64": 2, "order_axioms_checked.Option<i32>": 2, "none_is_none_ok": 10},
        technique="runtime monitoring: exhaustive execution of the real impls over a finite value pool with law checkers (null predicates, cast algebra, order axioms)",
        rule="finite pool, enumerated completely by one process: IsNone laws for 26 types (f32, f64, 6 integer types, bool, their Options, "
             "String, &str, DateTime<ns/s>, TimeDelta, Time); the 8x8 numeric cast lattice in the four Option combinations over 9-20 "
             "values per source type (0, +-1, extremes, NaN, +-inf, subnormals) against the language's `as` conversion; bool, "
             "Option<bool> and String / &str casts in both directions incl. the null string \"None\" into float and time targets; null preservation to / from the 6 time types; sort_cmp / sort_cmp_rev on all triples of 10 pools (antisymmetry, "
             "transitivity, nulls last, value order). Canonical nulls only (DESIGN 5.4). distinct = (law family, type(s), value)",
        exhaustive=True,
    ),
    "C16": dict(
        bin="c16",
        quick=NATIVE_QR, thorough=deep(60),
        floors={"unit_conversions_ok": 2000, "nat_conversions_ok": 50, "calendar_agreements": 500, "finer_and_back_ok": 300,
                "calendar_roundtrips_ok": 500, "nat_absorbed_ok": 200, "nat_calendar_none_ok": 10},
        technique="runtime monitoring: reference-model oracle (i128 floor arithmetic and the chrono calendar) over recorded conversions and operations",
        rule="all 4x4 unit pairs x timestamps {0, +-1, +-(ratio-1), +-ratio, +-ratio+-1, range ends of the unit, i64 extremes, NaT, "
             "random over the chrono-representable range, random dates 1678..2262 with sub-second parts}: into_unit and Cast<DateTime<_>> "
             "against i128 floor division / multiplication and against chrono; finer-and-back identity; as_cr / From<chrono> round trip; "
             "year..second getters against chrono; NaT -> NaT / None everywhere; every + - neg * duration_trunc on DateTime (4 units), "
             "TimeDelta and Time with a NaT operand must give NaT. distinct = (unit pair, sign, magnitude) / (unit, year, month) / NaT operation",
    ),
    "C17": dict(
        bin="c17",
        quick=NATIVE_QR, thorough=deep(30),
        floors={"ok.add_then_sub": 1000, "ok.difference_added_back": 1000, "ok.add_months": 500, "ok.sub_months": 500, "ok.td_associative": 500,
                "ok.td_scale_distributes_over_add": 500, "ok.time_components": 500, "ok.time_chrono_roundtrip": 500,
                "ok.time_shift_exact": 500, "ok.trunc_month_free": 300, "ok.trunc_months": 500, "ok.nat_operands": 100},
        technique="runtime monitoring: law checkers over generated operations with chrono / i128 arithmetic as reference model",
        rule="random date-times 1678..2262 in all four units with sub-second parts; month-free durations from every combination of "
             "ns..w terms and signs (multiples of the unit's resolution); month counts -1200..1200; times of day over 0..86400 s with "
             "ms / us / ns parts. Laws: (t+d)-d = t, (t-d)+d = t, b+(a-b) = a, t+months = chrono checked_add_months, TimeDelta group "
             "laws and scaling distributivity, Time constructors <-> Timelike getters <-> NaiveTime, Time +- d exact and invertible, "
             "duration_trunc(d) = floor to the greatest multiple of d (i128 on the epoch count), duration_trunc(k months, k | 12) = first "
             "instant of the month / quarter / half-year / year, NaT operands. distinct = (law, unit, sign / parameter class)",
    ),
    "C18": dict(
        bin="c18",
        quick=NATIVE_QR, thorough=deep(4),
        floors={"class.corpus": 30, "class.corpus_insert": 500, "class.duration_grammar": 1000, "class.duration_mutated": 1000,
                "class.datetime_grammar": 1000, "class.datetime_mutated": 1000, "class.random_unicode": 1000, "total.ok_results": 500,
                "total.err_results": 5000, "wellformed.ok": 2000, "roundtrip.default_ok": 500, "roundtrip.listed_ok": 2000},
        technique="runtime monitoring: grammar-based + mutational workload with a no-panic monitor and an i128 / chrono reference model",
        rule="totality: a corpus of tricky strings with every single-character insertion (incl. multi-byte) / deletion, grammar-generated "
             "duration-like strings (sign runs, 1..25 digits, valid / unknown / multi-byte units, whitespace), datetime-like strings (all "
             "listed layouts, out-of-range fields, years 0..300000), mutations of both, random unicode; each string goes through 8 parser "
             "entry points inside catch_unwind - any panic is a violation. Well-formed durations (1-6 optionally signed terms over the ten "
             "units) must equal the i128 sum of their terms (months and fixed part separately; out-of-range totals may be Err). Round trip: "
             "parse(strftime(t)) = t for the default format (all units, incl. the ends of the ns range) and the ten listed formats at "
             "their resolution. distinct = (generator class, length, hash bucket) / (term count, signs) / (unit, epoch quarter-century)",
    ),
    "C19": dict(
        bin="c19",
        quick=[("dbg", 1.0), ("rel", 1.0), ("miri", 1.0)],
        thorough=deep(10) + [("miri", 1.0), ("mirirel", 1.0), ("asan", 0.5), ("vg", 0.1)],
        floors={"range_int_ok.non_divisible_span": 50, "range_int_ok.empty_span": 50, "range_int_ok.divisible_span": 50,
                "range_float_ok": 200, "linspace_ok": 50, "full_empty_ok": 10, "collect_ok": 100, "collect_opt_ok": 5,
                "first_error_ok": 50, "write_ok": 10, "write_len_mismatch_err_ok": 10, "write_real_ok": 10, "checked_set_ok": 3},
        technique="runtime monitoring: reference-model oracle (integer progression, positional content) + SpyOut exactly-once write log; Miri / ASan / memcheck on the raw collectors and uninit buffers incl. String elements and error injection",
        rule="range(a,b,step) for a,b in -9..9 (and random to +-1000, extremes of i32) x steps {+-1..4,7}: i32 / Option<i32> / i64 / usize and "
             "dyadic (exact) / non-dyadic (one-element rounding band) f64, f32 against the integer progression strictly before b; "
             "linspace n 0..N (f64 and truncating i32); full / empty; collect_vec1 / trusted / with_len / opt / try_* into Vec, VecDeque, "
             "Array1 incl. two errors at every position pair (first error must come back) and String items; write / write_trust_iter into "
             "buffers of 0..N from iterators of 0, 1, len, other: SpyOut exactly-once or Err without partial state; real buffers with "
             "String elements. distinct = (function, type, length class, direction)",
    ),
    "C20": dict(
        bin="c20",
        quick=NATIVE_QR, thorough=deep(20),
        floors={"winsorize_ok.quantile": 200, "winsorize_ok.median": 200, "winsorize_ok.sigma": 200, "winsorize_clipped.quantile": 50,
                "winsorize_clipped.median": 50, "winsorize_clipped.sigma": 50, "spearman_ok": 300, "spearman_invariance_ok": 100,
                "half_life_in_range": 300, "half_life_value_ok": 30},
        technique="runtime monitoring: reference-model oracle (bounds from scratch, ranks + Pearson, brute-force autocorrelation) and a logical step budget (passes over an instrumented container) for bounded progress",
        rule="winsorize (quantile q in [0,0.5], median +- k MAD, mean +- k sigma) on len 0..N x 10 null patterns x 14 value classes + random "
             "len<=120: one value per input, nulls kept, values strictly inside the recomputed bounds unchanged exactly, values outside "
             "moved onto the nearer bound (tolerance zone tau), order preserved; Spearman = Pearson of own average ranks, exact invariance "
             "under x->2x+1, x^3, exp(x/4); half_life on an instrumented SpyVec (pass budget 4 len + 64 passes over the data, dbg and rel): no panic, "
             "result in [1,len-1] (0 iff len<2), and = min(L,len-1) on series whose brute-force lag autocorrelation is > 0.5+d below L and "
             "< 0.5-d from L on (AR(1) paths of every persistence, trends, alternating, with nulls). distinct = (function, method / "
             "parameters, len, result)",
    ),
}

for _k in list(PROPS):
    PROPS[_k].setdefault("features", [])
    PROPS[_k].setdefault("floors", {})
    PROPS[_k].setdefault("timeout_quick", 1500)
    PROPS[_k].setdefault("timeout_thorough", 7200)
