#!/usr/bin/env python3
"""Import sub-agent deliverables /tmp/<prefix>-<PID>-out/{patch.diff,demo.rs,meta.md} as seeded/S<n>/."""
import json, os, re, shutil, sys, glob
VERIF = os.path.dirname(os.path.dirname(os.path.abspath(__file__)))
SEEDED = os.path.join(VERIF, "seeded")
prefix, rnd = sys.argv[1], sys.argv[2]
n = max(int(s[1:]) for s in os.listdir(SEEDED) if re.fullmatch(r"S\d+", s)) + 1
for out in sorted(glob.glob(f"/tmp/{prefix}-C??-out")):
    pid = re.search(r"-(C\d\d)-out", out).group(1)
    if not all(os.path.exists(os.path.join(out, f)) for f in ("patch.diff", "demo.rs", "meta.md")):
        print("incomplete:", out); continue
    if os.path.getsize(os.path.join(out, "patch.diff")) == 0:
        print("empty patch:", out); continue
    sid = f"S{n}"; n += 1
    d = os.path.join(SEEDED, sid); os.makedirs(d)
    for f in ("patch.diff", "demo.rs", "meta.md"):
        shutil.copy(os.path.join(out, f), d)
    md = open(os.path.join(out, "meta.md")).read()
    title = md.splitlines()[0].lstrip("# ").strip()
    feats = re.search(r"^FEATURES:\s*(.*)$", md, re.M); cargs = re.search(r"^CARGO_ARGS:\s*(.*)$", md, re.M)
    clean = lambda m: "" if (m is None or m.group(1).strip().lower().strip("`. ") in ("none", "")) else m.group(1).strip().strip("`")
    meta = dict(id=sid, property=pid, title=title, summary=title, needs=md[:900], checks=[pid],
                origin=f"independent sub-agent (round {rnd}) given only the property text and a scratch worktree of /repo",
                demo_features=clean(feats), demo_cargo_args=clean(cargs))
    json.dump(meta, open(os.path.join(d, "meta.json"), "w"), indent=1)
    print(sid, pid, title)
