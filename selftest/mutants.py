#!/usr/bin/env python3
"""Mechanical mutation campaign: how sensitive are the monitors to small slips in the anchored code?

  mutants.py gen  [--seed N] [--per-file K]      write selftest/mutants/<round>/plan.jsonl (sampled mutants)
  mutants.py run  [--lanes 4] [--limit N]        judge the planned mutants, append to selftest/mutants/<round>/results.jsonl
  (round = $MUTANTS_ROUND, default r1; a later round never re-plans a mutant of an earlier one)
  mutants.py report                              summary table (markdown) on stdout

A mutant is ONE token-level edit of a library source line (comparison off by one, +-1 dropped,
min<->max, &&<->||, ==<->!=, +=<->-=, is_none<->not_none, ...). Each mutant is judged in a *lane*:
a scratch git worktree of /repo under /tmp plus a scratch copy of /verif/harness whose path
dependencies point at that worktree (VERIF_ALT_ROOT, see /verif/check). /repo itself, the real
evidence files and the real target directories are never touched. Verdicts per mutant:

  noncompiling     the edit does not compile                          (discarded)
  suite            the pinned suite already fails with it             (not our business)
  killed:<Cxx>     a quick check (modes dbg,rel) exits 1 with a VIOLATION line
  survived         suite green and every mapped check exits 0         (equivalent mutant or a gap)
  inconclusive     a check exits 2 (watchdog / coverage floor) and none exits 1

Lanes and their build output are removed at the end of `run`.
"""
import argparse
import json
import os
import random
import re
import shutil
import subprocess
import sys
import threading
import time

VERIF = os.path.dirname(os.path.dirname(os.path.abspath(__file__)))
REPO = "/repo"
OUT = os.path.join(VERIF, "selftest", "mutants")
ROUND = os.environ.get("MUTANTS_ROUND", "r1")
PLAN = os.path.join(OUT, ROUND, "plan.jsonl")
RESULTS = os.path.join(OUT, ROUND, "results.jsonl")

# source file -> properties whose monitors should notice a slip there (most specific first)
FILES = {
    "tea-rolling/src/features.rs": ["C01", "C05", "C06", "C08"],
    "tea-rolling/src/cmp.rs": ["C03", "C05", "C06", "C10"],
    "tea-rolling/src/norm.rs": ["C03", "C05", "C10"],
    "tea-rolling/src/reg.rs": ["C04", "C05", "C06"],
    "tea-rolling/src/binary.rs": ["C04", "C05", "C06"],
    "tevec/src/rolling.rs": ["C01", "C07"],
    "tevec/src/agg.rs": ["C20", "C11"],
    "tevec/src/map.rs": ["C20", "C13"],
    "tea-core/src/vec_core/cores/view.rs": ["C02", "C07", "C10", "C05"],
    "tea-core/src/backends_impl/vec.rs": ["C02", "C07", "C10", "C19"],
    "tea-core/src/backends_impl/ndarray.rs": ["C07", "C02", "C19"],
    "tea-core/src/backends_impl/vecdeque.rs": ["C07", "C02", "C19"],
    "tea-core/src/vec_core/iter.rs": ["C07", "C09"],
    "tea-core/src/vec_core/trusted.rs": ["C09", "C19"],
    "tea-core/src/vec_core/uninit.rs": ["C19", "C10"],
    "tea-core/src/create.rs": ["C19"],
    "tea-core/src/linspace.rs": ["C19", "C09"],
    "tea-core/src/vec_core/cores/own.rs": ["C19", "C09"],
    "tea-core/src/agg.rs": ["C11", "C20", "C08", "C12"],
    "tea-dtype/src/number.rs": ["C11", "C15", "C01"],
    "tea-time/src/impls/impl_time.rs": ["C17", "C16"],
    "tea-time/src/impls/impl_timedelta.rs": ["C17", "C15"],
    "tea-map/src/lib.rs": ["C13", "C09", "C06"],
    "tea-map/src/valid_iter.rs": ["C13", "C14", "C08", "C09"],
    "tea-map/src/vec_map.rs": ["C12", "C09", "C10"],
    "tea-agg/src/lib.rs": ["C11", "C08"],
    "tea-agg/src/vec_valid.rs": ["C11", "C12", "C08"],
    "tea-dtype/src/isnone.rs": ["C15", "C08"],
    "tea-dtype/src/cast.rs": ["C15"],
    "tea-time/src/datetime.rs": ["C16", "C17", "C18"],
    "tea-time/src/timedelta.rs": ["C17", "C18", "C16"],
    "tea-time/src/time.rs": ["C17", "C16"],
    "tea-time/src/impls/impl_ops.rs": ["C17", "C16"],
    "tea-time/src/impls/impl_datetime.rs": ["C16", "C18"],
    "tea-time/src/convert.rs": ["C16"],
}

# (name, regex, replacement). Applied to ONE occurrence on ONE line.
OPS = [
    ("le->lt", r"(?<![<>=!\-])<=(?!=)", "<"),
    ("ge->gt", r"(?<![<>=!\-])>=(?!=)", ">"),
    ("lt->le", r"(?<=\w) < (?=[\w(])", " <= "),
    ("gt->ge", r"(?<=[\w)]) > (?=[\w(])", " >= "),
    ("eq->ne", r"(?<![=!<>])==(?!=)", "!="),
    ("ne->eq", r"!=(?!=)", "=="),
    ("and->or", r" && ", " || "),
    ("or->and", r"(?<=[\w)]) \|\| (?=[\w(!])", " && "),
    ("min->max", r"\.min\(", ".max("),
    ("max->min", r"\.max\(", ".min("),
    ("plus1->0", r" \+ 1\b(?!\.)", ""),
    ("minus1->0", r" - 1\b(?!\.)", ""),
    ("pluseq->minuseq", r" \+= ", " -= "),
    ("minuseq->pluseq", r" -= ", " += "),
    ("add->sub", r"(?<=[\w)]) \+ (?=[\w(])", " - "),
    ("sub->add", r"(?<=[\w)]) - (?=[\w(])", " + "),
    ("is_none->not_none", r"\.is_none\(\)", ".not_none()"),
    ("not_none->is_none", r"\.not_none\(\)", ".is_none()"),
    ("is_some->is_none", r"\.is_some\(\)", ".is_none()"),
    ("true->false", r"\btrue\b", "false"),
    ("false->true", r"\bfalse\b", "true"),
    ("div->mul", r"(?<=[\w)]) / (?=[\w(])", " * "),
    ("saturating_sub->sub0", r"\.saturating_sub\(([^()]*)\)", r".saturating_sub(\1 + 1)"),
]

SKIP_LINE = re.compile(r"^\s*(//|#\[|#!\[|use |pub use |mod |pub mod |assert|debug_assert|///|\*|/\*|fn |pub fn |impl|where|type |const |static )")


def source_lines(path):
    """(lineno, text) of mutable lines: outside #[cfg(test)] modules, comments, signatures, doc tests."""
    lines = open(path).read().split("\n")
    out = []
    in_test = False
    for i, ln in enumerate(lines):
        if re.match(r"\s*#\[cfg\(test\)\]", ln):
            in_test = True  # test modules sit at the end of the files of this repo
        if in_test:
            continue
        if SKIP_LINE.match(ln) or "=>" in ln and "|" in ln and "||" not in ln:
            continue
        code = ln.split("//")[0]
        if not code.strip():
            continue
        out.append((i, code))
    return lines, out


def gen(seed, per_file):
    rnd = random.Random(seed)
    os.makedirs(os.path.dirname(PLAN), exist_ok=True)
    # never plan a mutant that an earlier round already judged
    seen = set()
    for d in sorted(os.listdir(OUT)):
        pj = os.path.join(OUT, d, "plan.jsonl")
        if os.path.isfile(pj) and d != ROUND:
            seen |= {(m["file"], m["line"], m["op"], m["occ"]) for m in map(json.loads, open(pj))}
    plan = []
    for f, props in FILES.items():
        path = os.path.join(REPO, f)
        if not os.path.exists(path):
            print("missing", f)
            continue
        _, cand = source_lines(path)
        muts = []
        for lineno, code in cand:
            if "move ||" in code or "|| {" in code or "|_" in code:
                code_ok = False
            else:
                code_ok = True
            for name, rx, rep in OPS:
                if name.startswith(("or->and", "and->or")) and not code_ok:
                    continue
                for k, m in enumerate(re.finditer(rx, code)):
                    # generics / lifetimes / arrows are not comparisons
                    if name in ("lt->le", "gt->ge") and re.search(r"(->|<[A-Z'&]|::<|Vec<|Option<|impl |dyn |for<)", code):
                        continue
                    if (f, lineno + 1, name, k) in seen:
                        continue
                    muts.append(dict(file=f, line=lineno + 1, op=name, occ=k, props=props, before=code.strip()[:160]))
        rnd.shuffle(muts)
        plan.extend(muts[:per_file])
        print(f"{f}: {len(muts)} candidate mutants, {min(len(muts), per_file)} sampled")
    rnd.shuffle(plan)
    for i, m in enumerate(plan):
        m["id"] = f"M{i:04d}" if ROUND == "r1" else f"{ROUND.upper()}M{i:04d}"
    with open(PLAN, "w") as fh:
        for m in plan:
            fh.write(json.dumps(m) + "\n")
    print(f"{len(plan)} mutants planned -> {PLAN}")


def apply_mutant(root, m):
    path = os.path.join(root, m["file"])
    lines = open(path).read().split("\n")
    ln = lines[m["line"] - 1]
    code, sep, comment = ln.partition("//")
    rx, rep = next((rx, rep) for name, rx, rep in OPS if name == m["op"])
    ms = list(re.finditer(rx, code))
    if m["occ"] >= len(ms):
        return None
    t = ms[m["occ"]]
    new = code[:t.start()] + t.expand(rep) + code[t.end():]
    lines[m["line"] - 1] = new + sep + comment
    open(path, "w").write("\n".join(lines))
    return new.strip()


def sh(cmd, cwd=None, env=None, timeout=1800):
    """run a command in its own process group; on timeout the whole group is killed (a mutated test
    binary that loops forever would otherwise survive cargo and burn a core for hours)"""
    import signal
    e = dict(os.environ, CARGO_NET_OFFLINE="true", RUST_BACKTRACE="0", CARGO_TERM_COLOR="never")
    if env:
        e.update(env)
    p = subprocess.Popen(cmd, cwd=cwd, shell=isinstance(cmd, str), stdout=subprocess.PIPE, stderr=subprocess.STDOUT, text=True,
                         env=e, start_new_session=True)
    try:
        out, _ = p.communicate(timeout=timeout)
        return p.returncode, out
    except subprocess.TimeoutExpired:
        try:
            os.killpg(p.pid, signal.SIGKILL)
        except Exception:
            pass
        out, _ = p.communicate()
        return 124, out or ""


class Lane:
    def __init__(self, k, workers):
        self.k = k
        self.dir = f"/tmp/mutlane-{k}"
        self.repo = os.path.join(self.dir, "repo")
        self.root = os.path.join(self.dir, "root")
        self.workers = workers

    def setup(self):
        shutil.rmtree(self.dir, ignore_errors=True)
        sh(["git", "-C", REPO, "worktree", "prune"])
        os.makedirs(self.root)
        rc, out = sh(["git", "-C", REPO, "worktree", "add", "-q", "--detach", self.repo, "HEAD"])
        assert rc == 0, out
        h = os.path.join(self.root, "harness")
        shutil.copytree(os.path.join(VERIF, "harness"), h, ignore=shutil.ignore_patterns("target"))
        ct = os.path.join(h, "Cargo.toml")
        s = open(ct).read().replace('"/repo/', f'"{self.repo}/')
        open(ct, "w").write(s)
        # registry crates (polars, ndarray, ...) are identical: seed the lane's target dirs from the real ones
        os.makedirs(os.path.join(self.root, "target"))
        for d in ("dbg", "dbgpl", "rel", "relpl") + (("miri", "asan", "relnh") if self.k >= 20 else ()):
            src = os.path.join(VERIF, "target", d)
            if os.path.isdir(src):
                sh(["cp", "-a", src, os.path.join(self.root, "target", d)])

    def teardown(self):
        sh(["git", "-C", REPO, "worktree", "remove", "--force", self.repo])
        shutil.rmtree(self.dir, ignore_errors=True)
        sh(["git", "-C", REPO, "worktree", "prune"])

    def judge(self, m):
        t0 = time.time()
        sh(["git", "-C", self.repo, "checkout", "--", "."])
        after = apply_mutant(self.repo, m)
        res = dict(m, after=after)
        if after is None or after == m["before"]:
            res["verdict"] = "noncompiling"
            res["note"] = "pattern not found"
            return res
        rc, out = sh("cargo test --workspace --no-fail-fast --offline", cwd=self.repo, timeout=1500)
        if rc != 0:
            if "could not compile" in out:
                res["verdict"] = "noncompiling"
            elif rc == 124:
                res["verdict"] = "suite"
                res["note"] = "suite hangs"
            else:
                res["verdict"] = "suite"
                res["note"] = ", ".join(re.findall(r"^test (\S+) \.\.\. FAILED", out, re.M)[:4])
            res["wall_s"] = round(time.time() - t0, 1)
            return res
        verdict = "survived"
        checks = {}
        for p in FILES.get(m["file"], m["props"]):
            rc, out = sh([os.path.join(VERIF, "check"), p, "--tier", "quick", "--modes", "dbg,rel"], cwd=VERIF, timeout=2400,
                         env=dict(VERIF_ALT_ROOT=self.root, VERIF_WORKERS=str(self.workers), VERIF_SHARD_TIMEOUT="900"))
            sigs = []
            try:
                sigs = json.load(open(os.path.join(self.root, "evidence", f"{p}.json")))["coverage"]["new_violation_signatures"][:3]
            except Exception:
                pass
            reason = ""
            if rc == 2:
                mm = re.search(r"INCONCLUSIVE property=\S+ reason=(.{0,200})", out)
                reason = mm.group(1) if mm else out[-200:]
            checks[p] = dict(exit=rc, signatures=sigs, **({"reason": reason} if reason else {}))
            if rc == 1:
                verdict = f"killed:{p}"
                break
            if rc != 0 and verdict == "survived":
                verdict = "inconclusive"
        res["verdict"] = verdict
        res["checks"] = checks
        res["wall_s"] = round(time.time() - t0, 1)
        return res


def run(nlanes, limit):
    plan = [json.loads(l) for l in open(PLAN)]
    done = set()
    if os.path.exists(RESULTS):
        done = {json.loads(l)["id"] for l in open(RESULTS)}
    todo = [m for m in plan if m["id"] not in done]
    if limit:
        todo = todo[:limit]
    print(f"{len(todo)} mutants to judge on {nlanes} lanes")
    lock = threading.Lock()
    it = iter(todo)
    workers = max(2, (os.cpu_count() or 8) // nlanes)

    def lane_main(k):
        lane = Lane(k, workers)
        lane.setup()
        try:
            while True:
                with lock:
                    m = next(it, None)
                if m is None:
                    break
                try:
                    r = lane.judge(m)
                except Exception as ex:  # harness trouble is never a verdict about the mutant
                    r = dict(m, verdict="inconclusive", note=f"lane error: {ex!r}"[:300])
                with lock:
                    with open(RESULTS, "a") as fh:
                        fh.write(json.dumps(r) + "\n")
                    print(f"[lane {k}] {r['id']} {r['file']}:{r['line']} {r['op']}: {r['verdict']} ({r.get('wall_s', '?')} s)", flush=True)
        finally:
            lane.teardown()

    ts = [threading.Thread(target=lane_main, args=(k,)) for k in range(nlanes)]
    for t in ts:
        t.start()
    for t in ts:
        t.join()


def report():
    rs = [json.loads(l) for l in open(RESULTS)]
    by = {}
    for r in rs:
        v = r["verdict"].split(":")[0]
        by.setdefault(r["file"], {}).setdefault(v, 0)
        by[r["file"]][v] += 1
    cols = ["killed", "survived", "inconclusive", "suite", "noncompiling"]
    print("| file | " + " | ".join(cols) + " |")
    print("|---|" + "---|" * len(cols))
    tot = dict.fromkeys(cols, 0)
    for f in sorted(by):
        print(f"| `{f}` | " + " | ".join(str(by[f].get(c, 0)) for c in cols) + " |")
        for c in cols:
            tot[c] += by[f].get(c, 0)
    print("| **total** | " + " | ".join(str(tot[c]) for c in cols) + " |")
    print()
    for r in rs:
        if r["verdict"] in ("survived", "inconclusive"):
            print(f"- {r['id']} `{r['file']}:{r['line']}` {r['op']}: `{r['before']}` -> `{r.get('after')}` [{r['verdict']}]")


def main():
    ap = argparse.ArgumentParser()
    ap.add_argument("cmd")
    ap.add_argument("--seed", type=int, default=1)
    ap.add_argument("--per-file", type=int, default=6)
    ap.add_argument("--lanes", type=int, default=4)
    ap.add_argument("--limit", type=int, default=0)
    a = ap.parse_args()
    if a.cmd == "gen":
        gen(a.seed, a.per_file)
    elif a.cmd == "run":
        run(a.lanes, a.limit)
    elif a.cmd == "report":
        report()
    else:
        print(__doc__)
        return 3
    return 0


if __name__ == "__main__":
    sys.exit(main())
