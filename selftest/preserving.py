#!/usr/bin/env python3
"""Property-preserving changes (/verif/preserving/<id>/patch.diff): the checks must stay silent.

  preserving.py run <id> [--tier quick] [--props C01,C05]   judge one change in a scratch lane
  preserving.py run-all [--tier quick]

A lane is a scratch git worktree of /repo plus a scratch copy of the harness pointing at it
(VERIF_ALT_ROOT, see selftest/mutants.py); /repo and the real evidence are not touched. The pinned
suite must be green with the patch; then every check mapped to the touched files (and the change's
own property) runs with its full set of modes for the tier. Any exit 1 is an alarm to be analysed:
either the change does break the property after all (then it belongs in /verif/seeded) or the check
demands more than the property states (then the check is corrected). Results: preserving/<id>/result.json
"""
import argparse
import json
import os
import re
import sys

sys.path.insert(0, os.path.dirname(os.path.abspath(__file__)))
import mutants  # noqa: E402

VERIF = mutants.VERIF
PRES = os.path.join(VERIF, "preserving")


def run(pid, tier, props, lane_no=20):
    d = os.path.join(PRES, pid)
    meta = json.load(open(os.path.join(d, "meta.json")))
    patch = os.path.join(d, "patch.diff")
    touched = re.findall(r"^\+\+\+ b/(\S+)", open(patch).read(), re.M)
    if not props:
        props = [meta["property"]]
        for f in touched:
            for p in mutants.FILES.get(f, []):
                if p not in props:
                    props.append(p)
    lane = mutants.Lane(lane_no, os.cpu_count() or 8)
    lane.setup()
    res = dict(id=pid, touched=touched, tier=tier, checks={})
    try:
        rc, out = mutants.sh(["git", "-C", lane.repo, "apply", patch])
        if rc != 0:
            res["error"] = "patch does not apply: " + out[-300:]
            return res
        rc, out = mutants.sh("cargo test --workspace --no-fail-fast --offline", cwd=lane.repo, timeout=1800)
        res["suite"] = "green" if rc == 0 else "RED: " + out[-400:]
        if rc != 0:
            return res
        for p in props:
            rc, out = mutants.sh([os.path.join(VERIF, "check"), p, "--tier", tier], cwd=VERIF, timeout=4 * 3600,
                                 env=dict(VERIF_ALT_ROOT=lane.root))
            sigs, details = [], []
            try:
                ev = json.load(open(os.path.join(lane.root, "evidence", f"{p}.json")))
                sigs = ev["coverage"]["new_violation_signatures"][:8]
            except Exception:
                pass
            rdir = os.path.join(lane.root, "replays", p)
            if os.path.isdir(rdir):
                for f in sorted(os.listdir(rdir))[:4]:
                    details.append(json.load(open(os.path.join(rdir, f)))["detail"][:500])
            lines = [l for l in out.splitlines() if l.startswith(("INCONCLUSIVE", "RESULT"))]
            res["checks"][p] = dict(exit=rc, signatures=sigs, details=details, lines=lines[:3])
            print(f"[{pid}] {p} {tier}: exit {rc} {'ALARM ' + str(sigs[:3]) if rc == 1 else ''}", flush=True)
    finally:
        lane.teardown()
        json.dump(res, open(os.path.join(d, "result.json"), "w"), indent=1)
    return res


def main():
    ap = argparse.ArgumentParser()
    ap.add_argument("cmd")
    ap.add_argument("pid", nargs="?")
    ap.add_argument("--tier", default="quick")
    ap.add_argument("--props", default=None)
    ap.add_argument("--lane", type=int, default=20)
    a = ap.parse_args()
    if a.cmd == "run":
        run(a.pid, a.tier, a.props.split(",") if a.props else None, a.lane)
    elif a.cmd == "run-all":
        for pid in sorted(os.listdir(PRES)):
            if os.path.exists(os.path.join(PRES, pid, "meta.json")):
                run(pid, a.tier, None, a.lane)
    else:
        print(__doc__)
        return 3
    return 0


if __name__ == "__main__":
    sys.exit(main())
