#!/usr/bin/env python3
"""Seeded breaking changes (/verif/seeded/<id>/): confirm and run the checks against them.

  seeded.py confirm <id> [--worktree DIR]  build a scratch worktree of /repo under /tmp, confirm that
                                           (a) the pinned suite is green with the patch,
                                           (b) the demonstration fails with the patch and passes without it
  seeded.py detect <id> [--tier quick] [--props C01,C05]
                                           apply the patch to /repo, run the checks, ALWAYS undo it
                                           (git -C /repo checkout -- .), restore the evidence files
  seeded.py detect-all [--tier quick]
  seeded.py regress [ids] [--lanes 3] [--tier quick]   re-judge all seeded changes against the current monitors in
                                           scratch lanes (no change to /repo); writes seeded/<id>/regress.json

Nothing is ever committed to /repo; scratch worktrees are removed when done.
"""
import argparse
import json
import os
import shutil
import subprocess
import sys
import time

VERIF = os.path.dirname(os.path.dirname(os.path.abspath(__file__)))
SEEDED = os.path.join(VERIF, "seeded")
REPO = "/repo"


def sh(cmd, cwd=None, timeout=3600):
    r = subprocess.run(cmd, cwd=cwd, shell=isinstance(cmd, str), stdout=subprocess.PIPE, stderr=subprocess.STDOUT, text=True,
                       timeout=timeout, env=dict(os.environ, CARGO_NET_OFFLINE="true", RUST_BACKTRACE="0"))
    return r.returncode, r.stdout


def meta_of(sid):
    return json.load(open(os.path.join(SEEDED, sid, "meta.json")))


def confirm(sid, worktree=None):
    d = os.path.join(SEEDED, sid)
    meta = meta_of(sid)
    own = worktree is None
    wt = worktree or f"/tmp/seedchk-{sid}-{os.getpid()}"
    if own:
        rc, out = sh(["git", "-C", REPO, "worktree", "add", "-q", "--detach", wt, "HEAD"])
        if rc != 0:
            print(out)
            return 2
    res = {}
    try:
        sh(["git", "-C", wt, "checkout", "--", "."])
        demo_dst = os.path.join(wt, "tevec", "tests", "demo.rs")
        os.makedirs(os.path.dirname(demo_dst), exist_ok=True)
        feats = meta.get("demo_features", "")
        fa = f"--features {feats}" if feats else ""
        extra = meta.get("demo_cargo_args", "")
        demo_cmd = f"cargo test -p tevec --offline --test demo {fa} {extra}"
        # without the patch: demo green
        shutil.copy(os.path.join(d, "demo.rs"), demo_dst)
        rc, out = sh(demo_cmd, cwd=wt)
        res["demo_without_patch"] = "pass" if rc == 0 else "FAIL"
        # with the patch
        rc, out = sh(["git", "-C", wt, "apply", os.path.join(d, "patch.diff")])
        if rc != 0:
            res["apply"] = out[-400:]
            print(json.dumps(res, indent=1))
            return 1
        rc, out = sh(demo_cmd, cwd=wt)
        res["demo_with_patch"] = "fail (as required)" if rc != 0 else "PASSES (demo does not show the break)"
        os.remove(demo_dst)
        rc, out = sh("cargo test --workspace --no-fail-fast --offline", cwd=wt)
        res["suite_with_patch"] = "green" if rc == 0 else "RED: " + out[-600:]
        ok = res["demo_without_patch"] == "pass" and res["demo_with_patch"].startswith("fail") and res["suite_with_patch"] == "green"
        res["confirmed"] = ok
    finally:
        if own:
            sh(["git", "-C", REPO, "worktree", "remove", "--force", wt])
            shutil.rmtree(wt, ignore_errors=True)
    print(json.dumps(res, indent=1))
    json.dump(res, open(os.path.join(d, "confirm.json"), "w"), indent=1)
    return 0 if res.get("confirmed") else 1


def detect(sid, tier, props=None):
    d = os.path.join(SEEDED, sid)
    meta = meta_of(sid)
    props = props or meta.get("checks", [meta["property"]])
    rc, out = sh(["git", "-C", REPO, "status", "--porcelain"])
    if out.strip():
        print("refusing: /repo has uncommitted changes:\n" + out)
        return 2
    backup = {}
    for p in props:
        ev = os.path.join(VERIF, "evidence", f"{p}.json")
        if os.path.exists(ev):
            backup[p] = open(ev).read()
    results = {}
    try:
        rc, out = sh(["git", "-C", REPO, "apply", os.path.join(d, "patch.diff")])
        if rc != 0:
            print("patch does not apply:", out)
            return 2
        for p in props:
            t0 = time.time()
            rc, out = sh([os.path.join(VERIF, "check"), p, "--tier", tier], cwd=VERIF, timeout=4 * 3600)
            lines = [l for l in out.splitlines() if l.startswith(("VIOLATION", "KNOWN-FINDING", "INCONCLUSIVE", "RESULT"))]
            sigs = []
            ev = os.path.join(VERIF, "evidence", f"{p}.json")
            try:
                sigs = json.load(open(ev))["coverage"]["new_violation_signatures"]
            except Exception:
                pass
            results[p] = dict(exit=rc, detected=(rc == 1), wall_s=round(time.time() - t0, 1), signatures=sigs[:12], lines=lines[:6])
            print(f"[{sid}] {p} {tier}: exit {rc} ({'DETECTED' if rc == 1 else 'missed' if rc == 0 else 'inconclusive'}) {sigs[:4]}")
    finally:
        sh(["git", "-C", REPO, "checkout", "--", "."])
        for p, txt in backup.items():
            open(os.path.join(VERIF, "evidence", f"{p}.json"), "w").write(txt)
        # replays written while the patch was applied are not evidence about the real tree
        for p in props:
            shutil.rmtree(os.path.join(VERIF, "replays", p), ignore_errors=True)
    rc, out = sh(["git", "-C", REPO, "status", "--porcelain"])
    assert not out.strip(), "repo not clean after detect: " + out
    path = os.path.join(d, "detect.json")
    allres = json.load(open(path)) if os.path.exists(path) else {}
    allres[tier] = results
    json.dump(allres, open(path, "w"), indent=1)
    return 0


def regress(nlanes, tier, only=None):
    """Re-judge every seeded change against the CURRENT monitors in scratch lanes (a scratch worktree of
    /repo with the patch + a scratch copy of the harness, VERIF_ALT_ROOT): /repo is not touched, so this
    can run next to other checks. Writes seeded/<id>/regress.json and prints one line per change."""
    import threading
    sys.path.insert(0, os.path.dirname(os.path.abspath(__file__)))
    import mutants
    ids = [s for s in sorted(os.listdir(SEEDED)) if os.path.exists(os.path.join(SEEDED, s, "meta.json"))]
    if only:
        ids = [i for i in ids if i in only]
    it = iter(ids)
    lock = threading.Lock()
    workers = max(4, (os.cpu_count() or 8) // nlanes)
    summary = {}

    def lane_main(k):
        lane = mutants.Lane(30 + k, workers)
        lane.setup()
        try:
            while True:
                with lock:
                    sid = next(it, None)
                if sid is None:
                    break
                meta = meta_of(sid)
                mutants.sh(["git", "-C", lane.repo, "checkout", "--", "."])
                rc, out = mutants.sh(["git", "-C", lane.repo, "apply", os.path.join(SEEDED, sid, "patch.diff")])
                if rc != 0:
                    res = dict(status="patch does not apply to the current tree", detail=out[-200:])
                else:
                    res = dict(status="missed", checks={})
                    for p in meta.get("checks", [meta["property"]]):
                        rc, out = mutants.sh([os.path.join(VERIF, "check"), p, "--tier", tier], cwd=VERIF, timeout=4 * 3600,
                                             env=dict(VERIF_ALT_ROOT=lane.root, VERIF_WORKERS=str(workers)))
                        sigs = []
                        try:
                            sigs = json.load(open(os.path.join(lane.root, "evidence", f"{p}.json")))["coverage"]["new_violation_signatures"][:6]
                        except Exception:
                            pass
                        res["checks"][p] = dict(exit=rc, signatures=sigs)
                        if rc == 1:
                            res["status"] = "detected"
                        elif rc != 0 and res["status"] == "missed":
                            res["status"] = "inconclusive"
                        shutil.rmtree(os.path.join(lane.root, "replays", p), ignore_errors=True)
                res["tier"] = tier
                json.dump(res, open(os.path.join(SEEDED, sid, "regress.json"), "w"), indent=1)
                with lock:
                    summary[sid] = res["status"]
                    print(f"[regress] {sid} {meta['property']}: {res['status']}", flush=True)
        finally:
            lane.teardown()

    ts = [threading.Thread(target=lane_main, args=(k,)) for k in range(nlanes)]
    for t in ts:
        t.start()
    for t in ts:
        t.join()
    bad = {k: v for k, v in summary.items() if v != "detected"}
    print(f"{len(summary) - len(bad)} of {len(summary)} detected; not detected: {bad}")
    return 0


def main():
    ap = argparse.ArgumentParser()
    ap.add_argument("cmd")
    ap.add_argument("sid", nargs="?")
    ap.add_argument("--tier", default="quick")
    ap.add_argument("--props", default=None)
    ap.add_argument("--worktree", default=None)
    ap.add_argument("--lanes", type=int, default=3)
    a = ap.parse_args()
    if a.cmd == "confirm":
        return confirm(a.sid, a.worktree)
    if a.cmd == "detect":
        return detect(a.sid, a.tier, a.props.split(",") if a.props else None)
    if a.cmd == "regress":
        return regress(a.lanes, a.tier, a.sid.split(",") if a.sid else None)
    if a.cmd == "detect-all":
        for sid in sorted(os.listdir(SEEDED)):
            if os.path.exists(os.path.join(SEEDED, sid, "meta.json")):
                detect(sid, a.tier)
        return 0
    print(__doc__)
    return 3


if __name__ == "__main__":
    sys.exit(main())
